(* Mutation operators (ec-linear/src/mutator) as distributions: bit-flip with a rate, the
   length-scaled variant, and UMAD; their shape (C11) and their laws (C12). *)
From Coq Require Import List ZArith QArith Lia Bool Lqa Arith.
From UEC Require Import Base.Dist.
Import ListNotations.
Local Open Scope Q_scope.

(* each gene independently: flipped with probability r *)
Fixpoint with_rate (r : Q) (g : list bool) : dist (list bool) :=
  match g with
  | [] => dret []
  | b :: t => dbind (bernoulli r) (fun f => dbind (with_rate r t) (fun t' => dret ((if f then negb b else b) :: t')))
  end.
Definition one_over_length (g : list bool) : dist (list bool) :=
  match g with [] => dret [] | _ => with_rate (1 / qnat (length g)) g end.

Fixpoint leqb (a b : list bool) : bool :=
  match a, b with [], [] => true | x :: a', y :: b' => Bool.eqb x y && leqb a' b' | _, _ => false end.
(* the product law: r for every flipped position, 1 - r for every kept one *)
Fixpoint flip_law_of (r : Q) (g c : list bool) : Q :=
  match g, c with
  | [], [] => 1
  | b :: g', x :: c' => (if Bool.eqb x b then 1 - r else r) * flip_law_of r g' c'
  | _, _ => 0
  end.

Lemma expect_zero A (d : dist A) : expect d (fun _ => 0) == 0.
Proof. induction d as [|[a p] d IH]; cbn; [reflexivity|]. rewrite IH. ring. Qed.

Theorem flip_law r g : forall c, prob (with_rate r g) (leqb c) == flip_law_of r g c.
Proof.
  induction g as [|b t IH]; intros c; cbn [with_rate flip_law_of].
  - rewrite prob_ret. destruct c; reflexivity.
  - rewrite prob_bind. cbn [bernoulli expect].
    destruct c as [|x c'].
    + assert (Z : forall v, prob (dbind (with_rate r t) (fun t' => dret (v :: t'))) (leqb []) == 0).
      { intros v. rewrite prob_bind. rewrite (expect_ext _ _ _ (fun _ => 0)); [apply expect_zero|]. intros a. rewrite prob_ret. reflexivity. }
      rewrite !Z. ring.
    + assert (S : forall v, prob (dbind (with_rate r t) (fun t' => dret (v :: t'))) (leqb (x :: c'))
                           == (if Bool.eqb x v then 1 else 0) * flip_law_of r t c').
      { intros v. rewrite prob_bind.
        rewrite (expect_ext _ _ _ (fun a => (if Bool.eqb x v then 1 else 0) * (if leqb c' a then 1 else 0))).
        - rewrite expect_scale, <- prob_as_expect, IH. reflexivity.
        - intros a. rewrite prob_ret. cbn [leqb]. destruct (Bool.eqb x v), (leqb c' a); cbn; ring. }
      rewrite !S. destruct x, b; cbn; ring.
Qed.

(* the number of flipped genes, and its expectation r * n: one expected flip for r = 1/n *)
Fixpoint flips (g c : list bool) : Q :=
  match g, c with
  | b :: g', x :: c' => (if Bool.eqb x b then 0 else 1) + flips g' c'
  | _, _ => 0
  end.
Lemma with_rate_mass r g : mass (with_rate r g) == 1.
Proof.
  induction g as [|b t IH]; cbn [with_rate]; [apply mass_ret|].
  rewrite mass_bind; [apply mass_bernoulli|]. intros f. rewrite mass_bind; [exact IH|]. intros; apply mass_ret.
Qed.
Theorem expected_flips r g : expect (with_rate r g) (flips g) == r * qnat (length g).
Proof.
  induction g as [|b t IH]; cbn [with_rate].
  - rewrite expect_ret. cbn [flips length]. change (qnat 0) with 0. ring.
  - rewrite expect_bind. cbn [bernoulli expect].
    assert (S : forall v, expect (dbind (with_rate r t) (fun t' => dret (v :: t'))) (flips (b :: t))
                          == (if Bool.eqb v b then 0 else 1) + r * qnat (length t)).
    { intros v. rewrite expect_bind.
      rewrite (expect_ext _ _ _ (fun a => (if Bool.eqb v b then 0 else 1) + flips t a)) by (intros a; rewrite expect_ret; reflexivity).
      rewrite expect_plus, expect_const, with_rate_mass, IH. ring. }
    rewrite !S. cbn [length]. rewrite qnat_S. destruct b; cbn; ring.
Qed.
Corollary one_expected_flip g : g <> [] -> expect (one_over_length g) (flips g) == 1.
Proof.
  intros H. unfold one_over_length. destruct g as [|b t]; [contradiction|].
  rewrite expected_flips. assert (0 < qnat (length (b :: t))) by (apply qnat_pos; cbn; lia). field. lra.
Qed.

(* shape: same length, every gene unchanged or negated *)
Lemma with_rate_nonneg r g : 0 <= r <= 1 -> nonneg (with_rate r g).
Proof.
  intros Hr. induction g as [|b t IH]; cbn [with_rate]; [apply nonneg_ret|].
  apply nonneg_bind; [now apply nonneg_bernoulli|]. intros f.
  apply nonneg_bind; [exact IH|]. intros t'. apply nonneg_ret.
Qed.
Theorem flip_shape r g c : 0 <= r <= 1 -> possible (with_rate r g) c ->
  length c = length g /\ forall p, nth_error c p = nth_error g p \/ nth_error c p = option_map negb (nth_error g p).
Proof.
  intros Hr. revert c. induction g as [|b t IH]; intros c; cbn [with_rate].
  - rewrite possible_ret. intros ->. split; [reflexivity|]. intros p. now left.
  - rewrite possible_bind; [|now apply nonneg_bernoulli|].
    2:{ intros f. apply nonneg_bind; [now apply with_rate_nonneg|]. intros t'. apply nonneg_ret. }
    intros (f & _ & H). rewrite possible_bind in H; [|now apply with_rate_nonneg|intros; apply nonneg_ret].
    destruct H as (t' & Ht' & H). apply possible_ret in H. subst c.
    destruct (IH _ Ht') as [Hl Hn]. split; [cbn; now rewrite Hl|].
    intros [|p]; cbn; [destruct f; auto|apply Hn].
Qed.
(* degenerate rates, as equalities of event probabilities *)
Lemma prob_bind_ret A B (dd : dist A) (f : A -> B) P :
  prob (dbind dd (fun x => dret (f x))) P == prob dd (fun x => P (f x)).
Proof.
  rewrite prob_bind, prob_as_expect. apply expect_ext. intros x. apply prob_ret.
Qed.
Lemma expect_bind_ret A B (dd : dist A) (f : A -> B) h :
  expect (dbind dd (fun x => dret (f x))) h == expect dd (fun x => h (f x)).
Proof. rewrite expect_bind. apply expect_ext. intros x. apply expect_ret. Qed.
Theorem flip_rate_0 g P : prob (with_rate 0 g) P == if P g then 1 else 0.
Proof.
  revert P. induction g as [|b t IH]; intros P; cbn [with_rate]; [apply prob_ret|].
  rewrite prob_bind. cbn [bernoulli expect]. rewrite !prob_bind_ret, !IH. ring.
Qed.
Theorem flip_rate_1 g P : prob (with_rate 1 g) P == if P (map negb g) then 1 else 0.
Proof.
  revert P. induction g as [|b t IH]; intros P; cbn [with_rate map]; [apply prob_ret|].
  rewrite prob_bind. cbn [bernoulli expect]. rewrite !prob_bind_ret, !IH. ring.
Qed.

(* ---------- UMAD ---------- *)
Section Umad.
Context {G : Type} (gen : dist G) (a d : Q).

(* one parent gene: [old?] ++ [new?], drawn in the order the code draws *)
Definition block (x : G) : dist (list G) :=
  dbind (bernoulli a) (fun add =>
  dbind (bernoulli d) (fun del =>
  dbind (if add then bernoulli d else dret false) (fun delnew =>
  let old := if del then [] else [x] in
  if add && negb delnew then dbind gen (fun y => dret (old ++ [y])) else dret old))).

Fixpoint umad_loop (g : list G) : dist (list G) :=
  match g with
  | [] => dret []
  | x :: t => dbind (block x) (fun b => dbind (umad_loop t) (fun r => dret (b ++ r)))
  end.
(* an empty parent gets at most one new gene, none when empty-genome addition is disabled *)
Definition umad (empty_rate : option Q) (g : list G) : dist (list G) :=
  match g, empty_rate with
  | [], Some e => dbind (bernoulli e) (fun add => if add then dbind gen (fun y => dret [y]) else dret [])
  | _, _ => umad_loop g
  end.

Definition len (l : list G) : Q := qnat (length l).
Lemma len_app l1 l2 : len (l1 ++ l2) == len l1 + len l2.
Proof. unfold len, qnat. rewrite app_length, Nat2Z.inj_add, inject_Z_plus. reflexivity. Qed.
Lemma mass_expect A (dd : dist A) : mass dd == expect dd (fun _ => 1).
Proof. unfold mass. rewrite prob_as_expect. reflexivity. Qed.

Context (gen_mass : mass gen == 1).

Lemma new_len old : expect (dbind gen (fun y => dret (old ++ [y]))) len == len old + 1.
Proof.
  rewrite expect_bind. rewrite (expect_ext _ _ _ (fun _ => len old + 1)).
  - rewrite expect_const, gen_mass. ring.
  - intros y. rewrite expect_ret, len_app. change (len [y]) with 1. reflexivity.
Qed.
Lemma new_one old : expect (dbind gen (fun y => dret (old ++ [y]))) (fun _ => 1) == 1.
Proof.
  rewrite expect_bind. rewrite (expect_ext _ _ _ (fun _ => 1)).
  - rewrite expect_const, gen_mass. ring.
  - intros y. now rewrite expect_ret.
Qed.
Lemma block_len x : expect (block x) len == (1 - d) * (1 + a).
Proof.
  unfold block. rewrite expect_bind. cbn [bernoulli expect].
  rewrite !expect_bind. cbn [bernoulli expect].
  rewrite !expect_bind. cbn [bernoulli expect dret andb negb].
  rewrite !new_len. change (len []) with 0. change (len [x]) with 1. ring.
Qed.
Lemma block_mass x : mass (block x) == 1.
Proof.
  rewrite mass_expect. unfold block. rewrite expect_bind. cbn [bernoulli expect].
  rewrite !expect_bind. cbn [bernoulli expect].
  rewrite !expect_bind. cbn [bernoulli expect dret andb negb].
  rewrite !new_one. ring.
Qed.
Lemma umad_mass g : mass (umad_loop g) == 1.
Proof.
  induction g as [|x t IH]; cbn [umad_loop]; [apply mass_ret|].
  rewrite mass_bind; [apply block_mass|]. intros b. rewrite mass_bind; [exact IH|]. intros; apply mass_ret.
Qed.

(* expected size: every gene is kept w.p. 1-d and followed by a surviving new gene w.p. a(1-d) *)
Theorem umad_size g : expect (umad_loop g) len == len g * ((1 - d) * (1 + a)).
Proof.
  induction g as [|x t IH]; cbn [umad_loop].
  - rewrite expect_ret. change (len []) with 0. ring.
  - rewrite expect_bind.
    rewrite (expect_ext _ _ _ (fun b => len b + len t * ((1 - d) * (1 + a)))).
    + rewrite expect_plus, block_len, expect_const, block_mass.
      change (x :: t) with ([x] ++ t). rewrite len_app.
      assert (H1 : len [x] == 1) by reflexivity. rewrite H1. ring.
    + intros b. rewrite expect_bind.
      rewrite (expect_ext _ _ _ (fun r => len b + len r)).
      * rewrite expect_plus, expect_const, umad_mass, IH. ring.
      * intros r. rewrite expect_ret. apply len_app.
Qed.
(* size is preserved in expectation when deletion = addition / (1 + addition) *)
Corollary umad_size_neutral g : 0 <= a -> d == a / (1 + a) -> expect (umad_loop g) len == len g.
Proof. intros Ha Hd. rewrite umad_size, Hd. field. lra. Qed.

End Umad.

(* ---------- UMAD: shape of the children (C11) ---------- *)
Section UmadShape.
Context {G : Type} (gen : dist G) (a d : Q).
Context (Hgen : nonneg gen) (Ha : 0 <= a <= 1) (Hd : 0 <= d <= 1).

(* the parent's surviving genes in their original order, with at most one new gene - drawn from the
   gene generator - after each parent position *)
Inductive lang : list G -> list G -> Prop :=
| lang_nil : lang [] []
| lang_cons x t old nw r :
    (old = [] \/ old = [x]) -> (nw = [] \/ exists y, possible gen y /\ nw = [y]) -> lang t r ->
    lang (x :: t) (old ++ nw ++ r).

Lemma nonneg_block x : nonneg (block gen a d x).
Proof.
  unfold block. apply nonneg_bind; [now apply nonneg_bernoulli|]. intros add.
  apply nonneg_bind; [now apply nonneg_bernoulli|]. intros del.
  apply nonneg_bind; [destruct add; [now apply nonneg_bernoulli|apply nonneg_ret]|]. intros dn.
  destruct (add && negb dn); [|apply nonneg_ret]. apply nonneg_bind; [exact Hgen|intros; apply nonneg_ret].
Qed.
Lemma nonneg_umad_loop g : nonneg (umad_loop gen a d g).
Proof.
  induction g as [|x t IH]; cbn [umad_loop]; [apply nonneg_ret|].
  apply nonneg_bind; [apply nonneg_block|]. intros b. apply nonneg_bind; [exact IH|intros; apply nonneg_ret].
Qed.

Lemma block_shape x b : possible (block gen a d x) b ->
  exists old nw, b = old ++ nw /\ (old = [] \/ old = [x]) /\ (nw = [] \/ exists y, possible gen y /\ nw = [y]).
Proof.
  unfold block. rewrite possible_bind; [|now apply nonneg_bernoulli|].
  2:{ intros add. apply nonneg_bind; [now apply nonneg_bernoulli|]. intros del.
      apply nonneg_bind; [destruct add; [now apply nonneg_bernoulli|apply nonneg_ret]|]. intros dn.
      destruct (add && negb dn); [|apply nonneg_ret]. apply nonneg_bind; [exact Hgen|intros; apply nonneg_ret]. }
  intros (add & _ & H). rewrite possible_bind in H; [|now apply nonneg_bernoulli|].
  2:{ intros del. apply nonneg_bind; [destruct add; [now apply nonneg_bernoulli|apply nonneg_ret]|]. intros dn.
      destruct (add && negb dn); [|apply nonneg_ret]. apply nonneg_bind; [exact Hgen|intros; apply nonneg_ret]. }
  destruct H as (del & _ & H). rewrite possible_bind in H; [|destruct add; [now apply nonneg_bernoulli|apply nonneg_ret]|].
  2:{ intros dn. destruct (add && negb dn); [|apply nonneg_ret]. apply nonneg_bind; [exact Hgen|intros; apply nonneg_ret]. }
  destruct H as (dn & _ & H).
  set (old := if del then [] else [x]) in *.
  assert (Hold : old = [] \/ old = [x]) by (unfold old; destruct del; auto).
  destruct (add && negb dn).
  - rewrite possible_bind in H; [|exact Hgen|intros; apply nonneg_ret].
    destruct H as (y & Hy & H). apply possible_ret in H. subst b.
    exists old, [y]. split; [reflexivity|]. split; [exact Hold|]. right. eauto.
  - apply possible_ret in H. subst b. exists old, []. rewrite app_nil_r. auto.
Qed.

Theorem umad_shape g c : possible (umad_loop gen a d g) c -> lang g c.
Proof.
  revert c. induction g as [|x t IH]; intros c; cbn [umad_loop].
  - rewrite possible_ret. intros ->. constructor.
  - rewrite possible_bind; [|apply nonneg_block|].
    2:{ intros b. apply nonneg_bind; [apply nonneg_umad_loop|intros; apply nonneg_ret]. }
    intros (b & Hb & H). rewrite possible_bind in H; [|apply nonneg_umad_loop|intros; apply nonneg_ret].
    destruct H as (r & Hr & H). apply possible_ret in H. subst c.
    apply block_shape in Hb. destruct Hb as (old & nw & -> & Ho & Hn).
    rewrite <- app_assoc. constructor; auto.
Qed.

(* an empty parent: at most one new gene; none when empty-genome addition is disabled *)
Theorem umad_empty_parent e c : (match e with Some r => 0 <= r <= 1 | None => True end) ->
  possible (umad gen a d e []) c ->
  match e with
  | None => c = []
  | Some _ => c = [] \/ exists y, possible gen y /\ c = [y]
  end.
Proof.
  destruct e as [r|]; cbn [umad umad_loop]; intros He.
  - rewrite possible_bind; [|now apply nonneg_bernoulli|].
    2:{ intros []; [apply nonneg_bind; [exact Hgen|intros; apply nonneg_ret]|apply nonneg_ret]. }
    intros ([] & _ & H).
    + rewrite possible_bind in H; [|exact Hgen|intros; apply nonneg_ret].
      destruct H as (y & Hy & H). apply possible_ret in H. right. eauto.
    + apply possible_ret in H. now left.
  - rewrite possible_ret. auto.
Qed.
End UmadShape.

(* degenerate rates *)
Section UmadDegenerate.
Context {G : Type} (gen : dist G).

Lemma block_delete_all a x (h : list G -> Q) : expect (block gen a 1 x) h == h [].
Proof.
  unfold block. rewrite expect_bind. cbn [bernoulli expect].
  rewrite !expect_bind. cbn [bernoulli expect]. rewrite !expect_bind. cbn [bernoulli expect andb negb].
  rewrite !expect_ret. ring.
Qed.
(* deletion rate 1: the child is empty *)
Theorem umad_delete_all a g P : prob (umad_loop gen a 1 g) P == if P [] then 1 else 0.
Proof.
  revert P. induction g as [|x t IH]; intros P; cbn [umad_loop]; [apply prob_ret|].
  rewrite prob_bind, block_delete_all, prob_bind_ret. cbn [app]. apply IH.
Qed.

(* addition rate 1, deletion rate 0: every parent gene is kept and followed by exactly one new gene *)
Lemma block_add_all x (h : list G -> Q) : expect (block gen 1 0 x) h == expect gen (fun y => h [x; y]).
Proof.
  unfold block. rewrite expect_bind. cbn [bernoulli expect].
  rewrite !expect_bind. cbn [bernoulli expect]. rewrite !expect_bind. cbn [bernoulli expect andb negb].
  rewrite !expect_ret, !expect_bind_ret. cbn [app]. ring.
Qed.
(* addition rate 0 and deletion rate 0: the identity (and an empty parent with empty-genome addition rate 0 stays empty) *)
Lemma block_identity x (h : list G -> Q) : expect (block gen 0 0 x) h == h [x].
Proof.
  unfold block. rewrite expect_bind. cbn [bernoulli expect].
  rewrite !expect_bind. cbn [bernoulli expect]. rewrite !expect_bind. cbn [bernoulli expect andb negb].
  rewrite !expect_ret. ring.
Qed.
Theorem umad_rate_0 g P : prob (umad_loop gen 0 0 g) P == if P g then 1 else 0.
Proof.
  revert P. induction g as [|x t IH]; intros P; cbn [umad_loop]; [apply prob_ret|].
  rewrite prob_bind, block_identity, prob_bind_ret. cbn [app]. apply IH.
Qed.
Theorem umad_rate_0_any_parent e g P : (e = None \/ e = Some 0) -> prob (umad gen 0 0 e g) P == if P g then 1 else 0.
Proof.
  intros He. destruct g as [|x t].
  - destruct He as [-> | ->]; cbn [umad umad_loop]; [apply prob_ret|].
    rewrite prob_bind. cbn [bernoulli expect]. rewrite prob_ret. ring.
  - destruct e; apply umad_rate_0.
Qed.
Fixpoint interleaved (g news c : list G) : Prop :=
  match g, news with
  | [], [] => c = []
  | x :: t, y :: ys => exists r, c = x :: y :: r /\ interleaved t ys r
  | _, _ => False
  end.
End UmadDegenerate.
