(* Facts about best / worst / random / tournament and about every combination (C06, C07). *)
From Coq Require Import List ZArith QArith Lia Bool Lqa Arith.
From UEC Require Import Base.Dist Ec.Select.
Import ListNotations.
Local Open Scope nat_scope.

(* ---------- best / worst ---------- *)
Lemma last_max_spec (k : nat -> Z) l cur i :
  last_max k l cur = Some i ->
  (In i l \/ cur = Some i) /\
  (forall j, In j l -> (k j <= k i)%Z) /\ (forall c, cur = Some c -> (k c <= k i)%Z).
Proof.
  revert cur. induction l as [|x l IH]; intros cur H; cbn in H.
  - subst. split; [now right|]. split; [intros j []|]. intros c [= ->]. lia.
  - destruct cur as [c|].
    + destruct (Z.leb_spec (k c) (k x)) as [Hle|Hgt]; apply IH in H; destruct H as [Hin [Hall Hc]].
      * split; [destruct Hin as [Hin|[= ->]]; [left; now right|left; now left]|].
        split; [intros j [<-|Hj]; [apply Hc; reflexivity|now apply Hall]|].
        intros c0 [= <-]. specialize (Hc x eq_refl). lia.
      * split; [destruct Hin as [Hin|[= ->]]; [left; now right|now right]|].
        split; [intros j [<-|Hj]; [specialize (Hc c eq_refl); lia|now apply Hall]|].
        intros c0 [= <-]. now apply Hc.
    + apply IH in H. destruct H as [Hin [Hall Hc]].
      split; [destruct Hin as [Hin|[= ->]]; left; [now right|now left]|].
      split; [intros j [<-|Hj]; [apply Hc; reflexivity|now apply Hall]|]. intros c [=].
Qed.

Lemma last_max_some (k : nat -> Z) l cur : (l <> [] \/ cur <> None) -> last_max k l cur <> None.
Proof.
  revert cur. induction l as [|x l IH]; intros cur H; cbn.
  - destruct H as [H|H]; [contradiction|exact H].
  - apply IH. right. destruct cur as [c|]; [destruct (_ <=? _)%Z|]; discriminate.
Qed.

Lemma first_min_spec (k : nat -> Z) l cur i :
  first_min k l cur = Some i ->
  (In i l \/ cur = Some i) /\
  (forall j, In j l -> (k i <= k j)%Z) /\ (forall c, cur = Some c -> (k i <= k c)%Z).
Proof.
  revert cur. induction l as [|x l IH]; intros cur H; cbn in H.
  - subst. split; [now right|]. split; [intros j []|]. intros c [= ->]. lia.
  - destruct cur as [c|].
    + destruct (Z.ltb_spec (k x) (k c)) as [Hlt|Hge]; apply IH in H; destruct H as [Hin [Hall Hc]].
      * split; [destruct Hin as [Hin|[= ->]]; [left; now right|left; now left]|].
        split; [intros j [<-|Hj]; [apply Hc; reflexivity|now apply Hall]|].
        intros c0 [= <-]. specialize (Hc x eq_refl). lia.
      * split; [destruct Hin as [Hin|[= ->]]; [left; now right|now right]|].
        split; [intros j [<-|Hj]; [specialize (Hc c eq_refl); lia|now apply Hall]|].
        intros c0 [= <-]. now apply Hc.
    + apply IH in H. destruct H as [Hin [Hall Hc]].
      split; [destruct Hin as [Hin|[= ->]]; left; [now right|now left]|].
      split; [intros j [<-|Hj]; [apply Hc; reflexivity|now apply Hall]|]. intros c [=].
Qed.
Lemma first_min_some (k : nat -> Z) l cur : (l <> [] \/ cur <> None) -> first_min k l cur <> None.
Proof.
  revert cur. induction l as [|x l IH]; intros cur H; cbn.
  - destruct H as [H|H]; [contradiction|exact H].
  - apply IH. right. destruct cur as [c|]; [destruct (_ <? _)%Z|]; discriminate.
Qed.

(* C07: best returns a maximal, worst a minimal individual *)
Theorem best_is_maximal pol pop i :
  possible (select pol pop SBest) (inl i) ->
  i < length pop /\ forall j, j < length pop -> (ikey pol pop j <= ikey pol pop i)%Z.
Proof.
  cbn [select]. rewrite possible_ret. unfold of_opt.
  destruct (last_max (ikey pol pop) (seq 0 (length pop)) None) as [m|] eqn:E; [|discriminate].
  intros [= <-]. apply last_max_spec in E. destruct E as [[Hin|Hc] [Hall _]]; [|discriminate].
  apply in_seq in Hin. split; [lia|]. intros j Hj. apply Hall. apply in_seq. lia.
Qed.
Theorem worst_is_minimal pol pop i :
  possible (select pol pop SWorst) (inl i) ->
  i < length pop /\ forall j, j < length pop -> (ikey pol pop i <= ikey pol pop j)%Z.
Proof.
  cbn [select]. rewrite possible_ret. unfold of_opt.
  destruct (first_min (ikey pol pop) (seq 0 (length pop)) None) as [m|] eqn:E; [|discriminate].
  intros [= <-]. apply first_min_spec in E. destruct E as [[Hin|Hc] [Hall _]]; [|discriminate].
  apply in_seq in Hin. split; [lia|]. intros j Hj. apply Hall. apply in_seq. lia.
Qed.

(* ---------- k-sublists ---------- *)
Fixpoint binom (n k : nat) {struct n} : nat :=
  match k with
  | O => 1
  | S k' => match n with O => 0 | S n' => binom n' k' + binom n' k end
  end.
Lemma binom_0 n : binom n 0 = 1. Proof. destruct n; reflexivity. Qed.

Lemma sublists_length A k (l : list A) : length (sublists k l) = binom (length l) k.
Proof.
  revert k. induction l as [|x t IH]; intros [|k]; cbn; auto.
  rewrite app_length, map_length, !IH. reflexivity.
Qed.

Lemma sublists_spec A k (l : list A) t :
  In t (sublists k l) -> length t = k /\ (forall x, In x t -> In x l) /\ (NoDup l -> NoDup t).
Proof.
  revert k t. induction l as [|x l IH]; intros [|k] t; cbn [sublists].
  - intros [<-|[]]. repeat split; [intros ? []|constructor].
  - intros [].
  - intros [<-|[]]. repeat split; [intros ? []|constructor].
  - rewrite in_app_iff, in_map_iff. intros [[t' [<- H]]|H].
    + apply IH in H. destruct H as [Hl [Hs Hn]]. cbn. split; [lia|]. split.
      * intros y [<-|Hy]; [now left|right; now apply Hs].
      * intros Hd. inversion Hd; subst. constructor; [intros Hx; apply H1; now apply Hs|now apply Hn].
    + apply IH in H. destruct H as [Hl [Hs Hn]]. split; [exact Hl|]. split.
      * intros y Hy. right. now apply Hs.
      * intros Hd. inversion Hd; subst. now apply Hn.
Qed.

Definition count {A} (P : A -> bool) (l : list A) : nat := length (filter P l).

Lemma filter_map_cons A (P : A -> bool) x (L : list (list A)) :
  filter (forallb P) (map (cons x) L) = if P x then map (cons x) (filter (forallb P) L) else [].
Proof.
  induction L as [|s L IH]; cbn.
  - now destruct (P x).
  - destruct (P x) eqn:E; cbn.
    + destruct (forallb P s); cbn; now rewrite IH.
    + exact IH.
Qed.

(* the k-sublists all of whose members satisfy P are counted by binom (count P l) k *)
Lemma count_all_P A (P : A -> bool) k (l : list A) :
  count (forallb P) (sublists k l) = binom (count P l) k.
Proof.
  unfold count. revert k. induction l as [|x t IH]; intros k.
  - destruct k; reflexivity.
  - destruct k as [|k].
    + cbn. destruct (P x); cbn; now rewrite ?binom_0.
    + cbn [sublists]. rewrite filter_app, app_length, filter_map_cons.
      cbn [filter]. destruct (P x) eqn:E.
      * rewrite map_length, !IH. cbn [length binom]. reflexivity.
      * cbn [length]. rewrite IH. reflexivity.
Qed.

(* the winner of a non-empty tournament has key <= v iff every participant has *)
Lemma last_max_le (k : nat -> Z) l cur v m :
  last_max k l cur = Some m ->
  ((k m <=? v)%Z = forallb (fun j => (k j <=? v)%Z) l && match cur with Some c => (k c <=? v)%Z | None => true end).
Proof.
  intros H. pose proof (last_max_spec _ _ _ _ H) as [Hin [Hall Hc]].
  apply eq_true_iff_eq. rewrite andb_true_iff, forallb_forall, Z.leb_le. split.
  - intros Hm. split; [intros j Hj; apply Z.leb_le; specialize (Hall j Hj); lia|].
    destruct cur as [c|]; [|reflexivity]. apply Z.leb_le. specialize (Hc c eq_refl). lia.
  - intros [Hl Hcur]. destruct Hin as [Hin|Hcm]; [apply Z.leb_le; now apply Hl|subst cur; now apply Z.leb_le].
Qed.

(* ---------- tournament ---------- *)
Theorem tournament_support pol pop k i :
  possible (select pol pop (STournament k)) (inl i) ->
  exists t, In t (sublists k (seq 0 (length pop))) /\ length t = k /\ NoDup t /\ In i t /\
            (forall j, In j t -> j < length pop /\ (ikey pol pop j <= ikey pol pop i)%Z).
Proof.
  cbn [select]. destruct (length pop <? k) eqn:E.
  - rewrite possible_ret. discriminate.
  - rewrite possible_bind; [|apply nonneg_uniform|intros; apply nonneg_ret].
    intros (t & Ht & Hr). apply possible_uniform in Ht. apply possible_ret in Hr.
    unfold of_opt in Hr. destruct (last_max (ikey pol pop) t None) as [m|] eqn:M; [|discriminate].
    injection Hr as <-. pose proof (sublists_spec _ _ _ _ Ht) as [Hl [Hs Hn]].
    apply last_max_spec in M. destruct M as [[Hin|Hc] [Hall _]]; [|discriminate].
    exists t. split; [exact Ht|]. split; [exact Hl|]. split; [apply Hn, seq_NoDup|]. split; [exact Hin|].
    intros j Hj. split; [specialize (Hs j Hj); apply in_seq in Hs; lia|now apply Hall].
Qed.

Theorem tournament_too_large pol pop k :
  length pop < k -> select pol pop (STournament k) = dret (inr ETournamentSize).
Proof. intros H. cbn [select]. apply Nat.ltb_lt in H. now rewrite H. Qed.

(* the law, ties included: P(winner's key <= v) = C(#{key <= v}, k) / C(n, k) *)
Definition key_le pol pop (v : Z) (o : outcome) : bool :=
  match o with inl i => (ikey pol pop i <=? v)%Z | inr _ => false end.

Theorem tournament_cdf pol pop k v :
  1 <= k <= length pop ->
  (prob (select pol pop (STournament k)) (key_le pol pop v)
   == qnat (binom (count (fun j => (ikey pol pop j <=? v)%Z) (seq 0 (length pop))) k) / qnat (binom (length pop) k))%Q.
Proof.
  intros [Hk1 Hkn]. cbn [select]. destruct (Nat.ltb_spec (length pop) k) as [?|_]; [lia|].
  rewrite prob_bind.
  rewrite (expect_ext _ _ _ (fun t => if forallb (fun j => (ikey pol pop j <=? v)%Z) t && negb (match t with [] => true | _ => false end) then 1 else 0)%Q).
  2:{ intros t. rewrite prob_ret. unfold of_opt, key_le.
      destruct (last_max (ikey pol pop) t None) as [m|] eqn:M.
      - rewrite (last_max_le _ _ _ v _ M). rewrite andb_true_r.
        destruct t; [cbn in M; discriminate|]. cbn [negb]. rewrite andb_true_r. reflexivity.
      - destruct t as [|x t]; [cbn; reflexivity|].
        exfalso. revert M. apply last_max_some. left. discriminate. }
  rewrite <- prob_as_expect, prob_uniform_count, sublists_length, seq_length.
  assert (E : filter (fun t => forallb (fun j => (ikey pol pop j <=? v)%Z) t && negb (match t with [] => true | _ => false end))
                     (sublists k (seq 0 (length pop)))
              = filter (forallb (fun j => (ikey pol pop j <=? v)%Z)) (sublists k (seq 0 (length pop)))).
  { apply filter_ext_in. intros t Ht. apply sublists_spec in Ht. destruct Ht as [Hl _].
    destruct t; [cbn in Hl; lia|]. cbn [negb]. now rewrite andb_true_r. }
  rewrite E. fold (count (forallb (fun j => (ikey pol pop j <=? v)%Z)) (sublists k (seq 0 (length pop)))).
  rewrite count_all_P. reflexivity.
Qed.

(* ---------- every combination: membership, documented emptiness, totality (C06) ---------- *)
Lemma nonneg_lexicase pol pop n : nonneg (lexicase pol pop n).
Proof.
  unfold lexicase. apply nonneg_bind; [apply nonneg_uniform|]. intros order.
  destruct (lex_run pol pop order (seq 0 (length pop))) as [[|c C]|e]; try apply nonneg_ret.
  apply nonneg_dmap, nonneg_uniform.
Qed.

Lemma qN_nonneg n : (0 <= qN n)%Q.
Proof. unfold qN. change 0%Q with (inject_Z 0). rewrite <- Zle_Qle. lia. Qed.
Lemma qN_pos n : (0 < n)%N -> (0 < qN n)%Q.
Proof. intros H. unfold qN. change 0%Q with (inject_Z 0). rewrite <- Zlt_Qlt. lia. Qed.
Lemma qN_add a b : (qN (a + b) == qN a + qN b)%Q.
Proof. unfold qN. rewrite N2Z.inj_add, inject_Z_plus. reflexivity. Qed.

Lemma ratio_in_unit a b : (0 < a + b)%N -> (0 <= qN a / qN (a + b) <= 1)%Q.
Proof.
  intros H. pose proof (qN_pos _ H) as Hp. pose proof (qN_nonneg a). pose proof (qN_nonneg b).
  rewrite qN_add in *. split.
  - apply Qle_shift_div_l; [exact Hp|]. lra.
  - apply Qle_shift_div_r; [exact Hp|]. lra.
Qed.

Lemma nonneg_select pol pop s : nonneg (select pol pop s).
Proof.
  induction s as [| | |k|n|w s IH|a IHa b IHb| |s IHs w rest IHr]; cbn [select].
  - apply nonneg_ret.
  - apply nonneg_ret.
  - destruct (length pop); [apply nonneg_ret|apply nonneg_dmap, nonneg_uniform].
  - destruct (_ <? _); [apply nonneg_ret|]. apply nonneg_bind; [apply nonneg_uniform|intros; apply nonneg_ret].
  - apply nonneg_lexicase.
  - destruct (w =? 0)%N; [apply nonneg_ret|exact IH].
  - destruct (N.eqb_spec (weight a + weight b) 0); [apply nonneg_ret|].
    apply nonneg_bind; [apply nonneg_bernoulli, ratio_in_unit; lia|]. intros []; assumption.
  - apply nonneg_ret.
  - destruct (N.eqb_spec (w + weight rest) 0); [apply nonneg_ret|].
    apply nonneg_bind; [apply nonneg_bernoulli, ratio_in_unit; lia|]. intros []; assumption.
Qed.

Lemma filter_case_sub pol pop c C i : In i (filter_case pol pop c C) -> In i C.
Proof. unfold filter_case. rewrite filter_In. tauto. Qed.
Lemma lex_run_sub pol pop cases : forall C S i, lex_run pol pop cases C = inl S -> In i S -> In i C.
Proof.
  induction cases as [|c cases IH]; intros C S i; cbn [lex_run].
  - intros [= <-]. auto.
  - destruct C as [|x [|y C]]; [discriminate|intros [= <-]; auto|].
    destruct (missing pol pop c (x :: y :: C)); [discriminate|].
    intros H Hi. eapply filter_case_sub, IH; eassumption.
Qed.

Theorem select_member pol pop s i : possible (select pol pop s) (inl i) -> i < length pop.
Proof.
  induction s as [| | |k|n|w s IH|a IHa b IHb| |s IHs w rest IHr]; cbn [select].
  - intros H. now apply best_is_maximal in H.
  - intros H. now apply worst_is_minimal in H.
  - destruct (length pop) as [|n] eqn:E.
    + rewrite possible_ret. discriminate.
    + rewrite possible_dmap. intros (a & Ha & [= ->]). apply possible_uniform, in_seq in Ha. lia.
  - intros H. apply (tournament_support pol pop k i) in H. destruct H as (t & _ & _ & _ & Hi & Hall).
    now apply Hall.
  - unfold lexicase. rewrite possible_bind; [|apply nonneg_uniform|].
    2:{ intros order. destruct (lex_run pol pop order (seq 0 (length pop))) as [[|c C]|e]; try apply nonneg_ret.
        apply nonneg_dmap, nonneg_uniform. }
    intros (order & _ & H).
    destruct (lex_run pol pop order (seq 0 (length pop))) as [[|c C]|e] eqn:R.
    + apply possible_ret in H. discriminate.
    + apply possible_dmap in H. destruct H as (a & Ha & [= ->]). apply possible_uniform in Ha.
      eapply lex_run_sub in R; [|exact Ha]. apply in_seq in R. lia.
    + apply possible_ret in H. discriminate.
  - destruct (w =? 0)%N; [rewrite possible_ret; discriminate|exact IH].
  - destruct (N.eqb_spec (weight a + weight b) 0); [rewrite possible_ret; discriminate|].
    rewrite possible_bind; [|apply nonneg_bernoulli, ratio_in_unit; lia|intros []; apply nonneg_select].
    intros ([] & _ & H); auto.
  - rewrite possible_ret. discriminate.
  - destruct (N.eqb_spec (w + weight rest) 0); [rewrite possible_ret; discriminate|].
    rewrite possible_bind; [|apply nonneg_bernoulli, ratio_in_unit; lia|intros []; apply nonneg_select].
    intros ([] & _ & H); auto.
Qed.

(* totality: the outcome distribution always has mass 1 - no stuck / panicking outcome exists *)
Lemma binom_pos n k : k <= n -> 0 < binom n k.
Proof.
  revert k. induction n as [|n IH]; intros [|k] H; cbn; try lia.
  destruct (Nat.eq_dec k n) as [->|Hn].
  - specialize (IH n (le_n _)). lia.
  - assert (0 < binom n (S k)) by (apply IH; lia). lia.
Qed.
Lemma perms_nonempty A (l : list A) : perms l <> [].
Proof.
  induction l as [|x l IH]; cbn; [discriminate|]. destruct (perms l) as [|p ps]; [contradiction|].
  cbn. destruct p; cbn; discriminate.
Qed.
Lemma mass_dmap A B (f : A -> B) d : (mass (dmap f d) == mass d)%Q.
Proof. unfold mass, dmap. induction d as [|[a p] d IH]; cbn; [reflexivity|]. rewrite IH. reflexivity. Qed.

Theorem select_total pol pop s : (mass (select pol pop s) == 1)%Q.
Proof.
  induction s as [| | |k|n|w s IH|a IHa b IHb| |s IHs w rest IHr]; cbn [select].
  - apply mass_ret.
  - apply mass_ret.
  - destruct (length pop) as [|n] eqn:E; [apply mass_ret|]. rewrite mass_dmap. apply mass_uniform. discriminate.
  - destruct (Nat.ltb_spec (length pop) k); [apply mass_ret|].
    rewrite mass_bind; [|intros; apply mass_ret]. apply mass_uniform.
    intros E. apply (f_equal (@length _)) in E. rewrite sublists_length, seq_length in E. cbn in E.
    pose proof (binom_pos (length pop) k ltac:(lia)). lia.
  - unfold lexicase. rewrite mass_bind; [apply mass_uniform, perms_nonempty|].
    intros order. destruct (lex_run pol pop order (seq 0 (length pop))) as [[|c C]|e]; try apply mass_ret.
    rewrite mass_dmap. apply mass_uniform. discriminate.
  - destruct (w =? 0)%N; [apply mass_ret|exact IH].
  - destruct (N.eqb_spec (weight a + weight b) 0); [apply mass_ret|].
    rewrite mass_bind; [apply mass_bernoulli|]. intros []; assumption.
  - apply mass_ret.
  - destruct (N.eqb_spec (w + weight rest) 0); [apply mass_ret|].
    rewrite mass_bind; [apply mass_bernoulli|]. intros []; assumption.
Qed.

(* the documented errors: which selector can report what *)
Fixpoint can_report (e : serr) (pop : population) (s : sel) : Prop :=
  match s with
  | SBest | SWorst | SRandom => e = EEmpty /\ pop = []
  | STournament k => e = ETournamentSize /\ length pop < k
  | SLexicase n => (e = EEmpty /\ pop = []) \/ (e = EMissingCase /\ exists i r, nth_error pop i = Some r /\ length r < n)
  | SLeaf w s' => (e = EZeroWeight /\ w = 0%N) \/ can_report e pop s'
  | SPair a b => (e = EZeroWeight /\ (weight a + weight b = 0)%N) \/ can_report e pop a \/ can_report e pop b
  | SDynNil => e = EZeroWeight
  | SDynCons s' w r => (e = EZeroWeight /\ (w + weight r = 0)%N) \/ can_report e pop s' \/ can_report e pop r
  end.
