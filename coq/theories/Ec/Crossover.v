(* Crossover of linear genomes (ec-linear/src/recombinator/*, genome/bitstring.rs).
   Randomised operators are modelled here at the level of their SUPPORT - the set of
   children that can occur; the probabilities are the subject of C12. *)
From Coq Require Import List Arith Bool Lia.
Import ListNotations.

Section Xo.
Context {T : Type}.

(* the child that takes positions [lo, hi) from b and everything else from a *)
Definition splice (a b : list T) (lo hi : nat) : list T :=
  firstn lo a ++ firstn (hi - lo) (skipn lo b) ++ skipn hi a.

(* two-point crossover: both cut points range over 0..=n (n = common length), so that every
   segment - also those touching either end - can occur; unequal lengths are an error *)
Definition segments (n : nat) : list (nat * nat) :=
  flat_map (fun lo => map (fun hi => (lo, hi)) (seq lo (n - lo + 1))) (seq 0 (n + 1)).
Definition two_point_support (a b : list T) : option (list (list T)) :=
  if Nat.eqb (length a) (length b)
  then Some (map (fun '(lo, hi) => splice a b lo hi) (segments (length a)))
  else None.

(* uniform crossover: every position decided on its own *)
Fixpoint mix (mask : list bool) (a b : list T) : list T :=
  match mask, a, b with
  | m :: ms, x :: a', y :: b' => (if m then x else y) :: mix ms a' b'
  | _, _, _ => []
  end.
Fixpoint masks (n : nat) : list (list bool) :=
  match n with O => [[]] | S n' => flat_map (fun m => [true :: m; false :: m]) (masks n') end.
Definition uniform_support (a b : list T) : option (list (list T)) :=
  if Nat.eqb (length a) (length b) then Some (map (fun m => mix m a b) (masks (length a))) else None.

(* the exchange primitives (Crossover for Bitstring): swap the addressed genes, or report an error *)
Fixpoint set_nth (i : nat) (v : T) (l : list T) {struct l} : list T :=
  match l, i with
  | [], _ => []
  | _ :: r, O => v :: r
  | x :: r, S i' => x :: set_nth i' v r
  end.
Definition crossover_gene (a b : list T) (i : nat) : option (list T * list T) :=
  match nth_error a i, nth_error b i with
  | Some x, Some y => Some (set_nth i y a, set_nth i x b)
  | _, _ => None
  end.
Definition crossover_segment (a b : list T) (lo hi : nat) : option (list T * list T) :=
  if (lo <=? hi) && (hi <=? length a) && (hi <=? length b)
  then Some (splice a b lo hi, splice b a lo hi)
  else None.

(* ---------- facts ---------- *)
Lemma nth_firstn (l : list T) n p : p < n -> nth_error (firstn n l) p = nth_error l p.
Proof.
  revert n p. induction l as [|x l IH]; intros [|n] [|p] H; cbn; try reflexivity; try lia. apply IH. lia.
Qed.
Lemma nth_skipn (l : list T) n p : nth_error (skipn n l) p = nth_error l (n + p).
Proof.
  revert l. induction n as [|n IH]; intros l; [reflexivity|]. destruct l as [|x l]; cbn; [now destruct p|]. apply IH.
Qed.

Lemma splice_length a b lo hi :
  length a = length b -> lo <= hi <= length a -> length (splice a b lo hi) = length a.
Proof.
  intros E H. unfold splice. rewrite !app_length, !firstn_length, !skipn_length. lia.
Qed.

Lemma splice_nth a b lo hi p :
  length a = length b -> lo <= hi <= length a ->
  nth_error (splice a b lo hi) p = if (lo <=? p) && (p <? hi) then nth_error b p else nth_error a p.
Proof.
  intros E H. unfold splice.
  destruct (Nat.leb_spec lo p) as [Hlo|Hlo]; cbn [andb].
  - rewrite nth_error_app2 by (rewrite firstn_length; lia). rewrite firstn_length, Nat.min_l by lia.
    destruct (Nat.ltb_spec p hi) as [Hhi|Hhi].
    + rewrite nth_error_app1 by (rewrite firstn_length, skipn_length; lia).
      rewrite nth_firstn by lia. rewrite nth_skipn. f_equal. lia.
    + rewrite nth_error_app2 by (rewrite firstn_length, skipn_length; lia).
      rewrite firstn_length, skipn_length, Nat.min_l by lia. rewrite nth_skipn. f_equal. lia.
  - rewrite nth_error_app1 by (rewrite firstn_length; lia). apply nth_firstn. lia.
Qed.

Lemma in_segments n lo hi : In (lo, hi) (segments n) <-> lo <= hi <= n.
Proof.
  unfold segments. rewrite in_flat_map. split.
  - intros [l [Hl H]]. apply in_seq in Hl. apply in_map_iff in H. destruct H as [h [[= <- <-] Hh]].
    apply in_seq in Hh. lia.
  - intros H. exists lo. split; [apply in_seq; lia|]. apply in_map_iff. exists hi. split; [reflexivity|apply in_seq; lia].
Qed.

Theorem two_point_child a b l c :
  two_point_support a b = Some l -> In c l ->
  length c = length a /\
  exists lo hi, lo <= hi <= length a /\ c = splice a b lo hi /\
    forall p, nth_error c p = if (lo <=? p) && (p <? hi) then nth_error b p else nth_error a p.
Proof.
  unfold two_point_support. destruct (Nat.eqb_spec (length a) (length b)) as [E|]; [|discriminate].
  intros [= <-] H. apply in_map_iff in H. destruct H as [[lo hi] [<- Hs]]. apply in_segments in Hs.
  split; [now apply splice_length|]. exists lo, hi. split; [exact Hs|]. split; [reflexivity|].
  intros p. now apply splice_nth.
Qed.

(* every segment can occur, including those touching either end *)
Theorem two_point_every_segment a b lo hi :
  length a = length b -> lo <= hi <= length a ->
  exists l, two_point_support a b = Some l /\ In (splice a b lo hi) l.
Proof.
  intros E H. unfold two_point_support. rewrite E, Nat.eqb_refl. eexists. split; [reflexivity|].
  apply in_map_iff. exists (lo, hi). split; [reflexivity|]. rewrite <- E. now apply in_segments.
Qed.

Theorem two_point_empty : two_point_support (@nil T) [] = Some [[]].
Proof. reflexivity. Qed.

Theorem two_point_mismatch a b : length a <> length b -> two_point_support a b = None /\ uniform_support a b = None.
Proof. intros H. unfold two_point_support, uniform_support. apply Nat.eqb_neq in H. now rewrite H. Qed.

Lemma mix_length m a b : length m = length a -> length a = length b -> length (mix m a b) = length a.
Proof.
  revert a b. induction m as [|x m IH]; intros [|u a] [|v b]; cbn; intros H1 H2; try lia. f_equal. apply IH; lia.
Qed.
Lemma mix_nth m a b p : length m = length a -> length a = length b ->
  nth_error (mix m a b) p = match nth_error m p with Some true => nth_error a p | Some false => nth_error b p | None => None end.
Proof.
  revert a b p. induction m as [|x m IH]; intros [|u a] [|v b] p; cbn; intros H1 H2; try lia.
  - now destruct p.
  - destruct p as [|p]; cbn; [now destruct x|]. apply IH; lia.
Qed.
Lemma masks_length n m : In m (masks n) -> length m = n.
Proof.
  revert m. induction n as [|n IH]; cbn; intros m H.
  - destruct H as [<-|[]]. reflexivity.
  - apply in_flat_map in H. destruct H as [m0 [H0 [<-|[<-|[]]]]]; cbn; f_equal; auto.
Qed.
Lemma masks_complete n m : length m = n -> In m (masks n).
Proof.
  revert m. induction n as [|n IH]; intros [|x m] H; cbn in *; try lia; [now left|].
  apply in_flat_map. exists m. split; [apply IH; lia|]. destruct x; cbn; auto.
Qed.

Theorem uniform_child a b l c :
  uniform_support a b = Some l -> In c l ->
  length c = length a /\ forall p, p < length a -> nth_error c p = nth_error a p \/ nth_error c p = nth_error b p.
Proof.
  unfold uniform_support. destruct (Nat.eqb_spec (length a) (length b)) as [E|]; [|discriminate].
  intros [= <-] H. apply in_map_iff in H. destruct H as [m [<- Hm]]. apply masks_length in Hm.
  split; [now apply mix_length|]. intros p Hp. rewrite mix_nth by assumption.
  destruct (nth_error m p) as [[|]|] eqn:N; auto. apply nth_error_None in N. lia.
Qed.

(* every position is free: each combination of per-position choices is a possible child *)
Theorem uniform_every_choice a b m :
  length a = length b -> length m = length a ->
  exists l, uniform_support a b = Some l /\ In (mix m a b) l.
Proof.
  intros E Hm. unfold uniform_support. rewrite E, Nat.eqb_refl. eexists. split; [reflexivity|].
  apply in_map_iff. exists m. split; [reflexivity|]. apply masks_complete. lia.
Qed.

(* exchange: exactly the addressed genes are swapped, nothing else changes *)
Theorem crossover_segment_exact a b lo hi a' b' :
  length a = length b -> crossover_segment a b lo hi = Some (a', b') ->
  length a' = length a /\ length b' = length b /\
  forall p, nth_error a' p = (if (lo <=? p) && (p <? hi) then nth_error b p else nth_error a p) /\
            nth_error b' p = (if (lo <=? p) && (p <? hi) then nth_error a p else nth_error b p).
Proof.
  intros E. unfold crossover_segment.
  destruct (Nat.leb_spec lo hi), (Nat.leb_spec hi (length a)), (Nat.leb_spec hi (length b)); cbn [andb]; try discriminate.
  intros [= <- <-]. rewrite !splice_length by lia. repeat split; apply splice_nth; lia.
Qed.
Theorem crossover_segment_error a b lo hi :
  (hi < lo \/ length a < hi \/ length b < hi) -> crossover_segment a b lo hi = None.
Proof.
  intros H. unfold crossover_segment.
  destruct (Nat.leb_spec lo hi), (Nat.leb_spec hi (length a)), (Nat.leb_spec hi (length b)); cbn [andb]; try reflexivity; lia.
Qed.

Lemma set_nth_nth i v l p : nth_error (set_nth i v l) p = if Nat.eqb p i then (if p <? length l then Some v else None) else nth_error l p.
Proof.
  revert i p. induction l as [|x l IH]; intros i p; cbn [set_nth length].
  - destruct (Nat.eqb p i); destruct p; reflexivity.
  - destruct i as [|i], p as [|p]; cbn [nth_error Nat.eqb]; try reflexivity.
    rewrite IH. destruct (Nat.eqb p i); [|reflexivity].
    change (S p <? S (length l)) with (p <? length l). reflexivity.
Qed.
Theorem crossover_gene_exact a b i a' b' :
  crossover_gene a b i = Some (a', b') ->
  forall p, nth_error a' p = (if Nat.eqb p i then nth_error b i else nth_error a p) /\
            nth_error b' p = (if Nat.eqb p i then nth_error a i else nth_error b p).
Proof.
  unfold crossover_gene. destruct (nth_error a i) as [x|] eqn:Ea; [|discriminate].
  destruct (nth_error b i) as [y|] eqn:Eb; [|discriminate]. intros [= <- <-] p. rewrite !set_nth_nth.
  destruct (Nat.eqb_spec p i) as [->|]; [|split; reflexivity].
  assert (i < length a) by (apply nth_error_Some; congruence).
  assert (i < length b) by (apply nth_error_Some; congruence).
  destruct (Nat.ltb_spec i (length a)), (Nat.ltb_spec i (length b)); try lia. auto.
Qed.
Theorem crossover_gene_error a b i : (length a <= i \/ length b <= i) -> crossover_gene a b i = None.
Proof.
  intros H. unfold crossover_gene. destruct H as [H|H]; apply nth_error_None in H; rewrite H; [reflexivity|].
  now destruct (nth_error a i).
Qed.
End Xo.
