(* Lexicase on a population whose individuals all have the SAME result on every case considered: no case eliminates
   anybody, so the selection is uniform over the whole population whatever the number of cases - a closed form that
   needs no enumeration of the n! case orders (used for case counts in the thousands, where only the depth of the
   implementation's own loop is at stake). *)
From Coq Require Import List ZArith QArith Lia Bool Arith Lqa.
From UEC Require Import Base.Dist Ec.Select Ec.SelectProps Ec.LexProps Ec.LexDecisive Ec.Generators.
Import ListNotations.
Local Open Scope nat_scope.

Section Tied.
Context (pol : bool) (pop : population).
Notation cr := (case_result pol pop).

Lemma fold_max_tied c v l : (forall j, In j l -> cr j c = Some v) ->
  fold_right (fun i m => match cr i c with Some v' => Z.max v' m | None => m end) v l = v.
Proof.
  induction l as [|h l IH]; intros H; cbn [fold_right]; [reflexivity|].
  rewrite (H h (or_introl eq_refl)), IH; [apply Z.max_id|]. intros j Hj. apply H. now right.
Qed.
Lemma best_on_tied c C v : C <> [] -> (forall j, In j C -> cr j c = Some v) -> best_on pol pop c C = v.
Proof.
  intros Hne H. unfold best_on. destruct C as [|h C]; [contradiction|].
  rewrite (H h (or_introl eq_refl)). now apply fold_max_tied.
Qed.
Lemma filter_all {A} (f : A -> bool) l : (forall x, In x l -> f x = true) -> filter f l = l.
Proof.
  induction l as [|x l IH]; intros H; cbn [filter]; [reflexivity|].
  rewrite (H x (or_introl eq_refl)), IH; [reflexivity|]. intros y Hy. apply H. now right.
Qed.
Lemma filter_case_tied c C v : C <> [] -> (forall j, In j C -> cr j c = Some v) -> filter_case pol pop c C = C.
Proof.
  intros Hne H. unfold filter_case. rewrite (best_on_tied c C v Hne H). apply filter_all.
  intros j Hj. rewrite (H j Hj). apply Z.eqb_refl.
Qed.
Lemma missing_tied c C v : (forall j, In j C -> cr j c = Some v) -> missing pol pop c C = false.
Proof.
  intros H. unfold missing. induction C as [|h C IH]; cbn [existsb]; [reflexivity|].
  rewrite (H h (or_introl eq_refl)). cbn [orb]. apply IH. intros j Hj. apply H. now right.
Qed.

Definition tied_on (cases C : list nat) : Prop :=
  forall c, In c cases -> exists v, forall j, In j C -> cr j c = Some v.

Lemma lex_run_tied cases : forall C, 2 <= length C -> tied_on cases C -> lex_run pol pop cases C = inl C.
Proof.
  induction cases as [|c rest IH]; intros C HC HT; cbn [lex_run]; [reflexivity|].
  destruct C as [|a [|b C']]; cbn [length] in HC; try lia.
  destruct (HT c (or_introl eq_refl)) as [v Hv].
  rewrite (missing_tied c _ v Hv), (filter_case_tied c _ v); [|discriminate|exact Hv].
  apply IH; [cbn [length]; lia|]. intros c' Hc'. apply HT. now right.
Qed.

(* every individual is selected with probability 1 / (size of the population) *)
Theorem lexicase_all_tied n i :
  2 <= length pop -> tied_on (seq 0 n) (seq 0 (length pop)) -> i < length pop ->
  (prob (lexicase pol pop n) (is_idx i) == 1 / qnat (length pop))%Q.
Proof.
  intros H2 HT Hi. rewrite lexicase_law.
  rewrite (expect_ext_in _ _ _ (fun _ => 1 / qnat (length pop))%Q).
  - rewrite expect_const, mass_uniform; [ring|].
    intros E. pose proof (perms_count (seq 0 n)) as Hc. rewrite E in Hc. cbn [length] in Hc.
    pose proof (lt_O_fact (length (seq 0 n))). lia.
  - intros order p Hin. unfold uniform in Hin. apply in_map_iff in Hin. destruct Hin as [o [Ho Hin]].
    injection Ho as -> _.
    rewrite (lex_run_tied order (seq 0 (length pop))).
    + destruct (seq 0 (length pop)) as [|x s] eqn:Es; [apply (f_equal (@length nat)) in Es; rewrite seq_length in Es; cbn in Es; lia|].
      rewrite <- Es, seq_length.
      assert (Hf : length (filter (Nat.eqb i) (seq 0 (length pop))) = 1).
      { rewrite filter_eq_seq. destruct (Nat.leb_spec 0 i), (Nat.ltb_spec i (0 + length pop)); cbn [andb]; try lia; reflexivity. }
      rewrite Hf. reflexivity.
    + rewrite seq_length. exact H2.
    + intros c Hc. apply HT. apply (perms_spec _ _ _ Hin). exact Hc.
Qed.
End Tied.
