(* One generation step (ec-core/src/generation.rs): the population is replaced, atomically, by as
   many children as it had, each made from the OLD population with its own randomness. *)
From Coq Require Import List Arith Lia.
From UEC Require Import Ec.Compose.
Import ListNotations.

Section Gen.
(* the child maker is an arbitrary operator on (a reference to) the population; R is the
   randomness it is handed (serial stepping threads one generator through all the calls) *)
Context {Ind R E : Type} (cm : op R (list Ind) Ind E).

(* serial_next: repeat_n(&population, size).map(|p| child_maker.apply(p, &mut rng)).collect::<Result<_,_>>()
   and only then assign *)
Definition serial_next (pop : list Ind) (r : R) : (list Ind + E) * list Ind * R :=
  match repeat_ (length pop) cm pop r with
  | (inl children, r') => (inl children, children, r')
  | (inr e, r') => (inr e, pop, r')
  end.

Theorem serial_len pop r children pop' r' :
  serial_next pop r = (inl children, pop', r') -> pop' = children /\ length pop' = length pop.
Proof.
  unfold serial_next. destruct (repeat_ (length pop) cm pop r) as [[cs|e] r1] eqn:Hr; intros H; inversion H; subst.
  split; [reflexivity|]. eapply repeat_length; eassumption.
Qed.

(* atomic: on failure the population is exactly what it was, and the error is the child maker's *)
Theorem serial_atomic pop r e pop' r' :
  serial_next pop r = (inr e, pop', r') -> pop' = pop.
Proof.
  unfold serial_next. destruct (repeat_ (length pop) cm pop r) as [[cs|e0] r1]; intros H; inversion H; reflexivity.
Qed.

(* the calls: the k-th child is made from the OLD population with the randomness the (k-1)-th left *)
Fixpoint calls (n : nat) (pop : list Ind) (r : R) : list (R * ((Ind + E) * R)) :=
  match n with
  | O => []
  | S n' => let res := cm pop r in
            (r, res) :: match fst res with inl _ => calls n' pop (snd res) | inr _ => [] end
  end.

(* every call is handed the old population, and the generator state is threaded from call to call:
   the randomness consumed by different children are consecutive, disjoint stretches of the stream *)
Theorem calls_see_old_population n pop r k r_k res :
  nth_error (calls n pop r) k = Some (r_k, res) -> res = cm pop r_k.
Proof.
  revert r k. induction n as [|n IH]; intros r k; cbn [calls]; [destruct k; discriminate|].
  destruct k as [|k]; cbn [nth_error].
  - intros [= <- <-]. reflexivity.
  - destruct (fst (cm pop r)); [apply IH|destruct k; discriminate].
Qed.
Theorem calls_chain n pop r k r_k res r_k1 res1 :
  nth_error (calls n pop r) k = Some (r_k, res) -> nth_error (calls n pop r) (S k) = Some (r_k1, res1) ->
  r_k1 = snd res /\ exists c, fst res = inl c.
Proof.
  revert r k. induction n as [|n IH]; intros r k; cbn [calls]; [destruct k; discriminate|].
  destruct k as [|k]; cbn [nth_error].
  - intros [= <- <-]. destruct (fst (cm pop r)) as [c|e] eqn:Hf; [|destruct n; discriminate].
    destruct n as [|n]; [discriminate|]. cbn [calls nth_error]. intros [= <- _]. split; [reflexivity|eauto].
  - destruct (fst (cm pop r)); [apply IH|destruct k; discriminate].
Qed.
Theorem calls_at_most n pop r : length (calls n pop r) <= n.
Proof.
  revert r. induction n as [|n IH]; intros r; cbn [calls length]; [lia|].
  destruct (fst (cm pop r)); [specialize (IH (snd (cm pop r))); lia|cbn; lia].
Qed.

(* the stepping function IS that chain of calls: on success the new population is exactly the children the
   n calls returned, in call order, and the generator is left where the last call left it; on failure the
   error is the one the LAST call made returned (so it is a child maker's error, and nothing ran after it) *)
Lemma last_cons_default {X} (a d : X) l : last (a :: l) d = last l a.
Proof.
  revert a d. induction l as [|y l IH]; intros a d; [reflexivity|].
  change (last (a :: y :: l) d) with (last (y :: l) d). rewrite (IH y d), (IH y a). reflexivity.
Qed.

Lemma repeat_calls n pop r :
  match repeat_ n cm pop r with
  | (inl cs, r') => length (calls n pop r) = n /\ map (fun c => fst (snd c)) (calls n pop r) = map inl cs /\
                    r' = last (map (fun c => snd (snd c)) (calls n pop r)) r
  | (inr e, r') => exists k r_k, nth_error (calls n pop r) k = Some (r_k, (inr e, r')) /\ length (calls n pop r) = S k
  end.
Proof.
  revert r. induction n as [|n IH]; intros r; cbn [repeat_ calls]; [auto|].
  destruct (cm pop r) as [[c|e] r1] eqn:Hc; cbn [fst snd].
  - specialize (IH r1). destruct (repeat_ n cm pop r1) as [[cs|e] r2].
    + destruct IH as (Hl & Hm & Hr). cbn [length map fst snd]. repeat split; [lia|now rewrite Hm|].
      rewrite Hr. symmetry. apply last_cons_default.
    + destruct IH as (k & r_k & Hn & Hl). exists (S k), r_k. cbn [nth_error length]. split; [exact Hn|lia].
  - exists 0, r. split; reflexivity.
Qed.

Theorem serial_children_are_the_calls pop r children pop' r' :
  serial_next pop r = (inl children, pop', r') ->
  length (calls (length pop) pop r) = length pop /\
  map (fun c => fst (snd c)) (calls (length pop) pop r) = map inl pop'.
Proof.
  unfold serial_next. pose proof (repeat_calls (length pop) pop r) as H.
  destruct (repeat_ (length pop) cm pop r) as [[cs|e] r1]; intros Heq; inversion Heq; subst. tauto.
Qed.

Theorem serial_error_is_a_childs pop r e pop' r' :
  serial_next pop r = (inr e, pop', r') ->
  exists k r_k, nth_error (calls (length pop) pop r) k = Some (r_k, (inr e, r')) /\
                length (calls (length pop) pop r) = S k /\ k < length pop.
Proof.
  unfold serial_next. pose proof (repeat_calls (length pop) pop r) as H.
  destruct (repeat_ (length pop) cm pop r) as [[cs|e0] r1]; intros Heq; [discriminate|].
  injection Heq as -> <- ->.
  destruct H as (k & r_k & Hn & Hl). exists k, r_k. repeat split; [exact Hn|exact Hl|].
  pose proof (calls_at_most (length pop) pop r). lia.
Qed.

(* counting: a successful step makes exactly n calls and n children; a failed one makes exactly one child fewer than
   calls (every call before the failing one succeeded, nothing ran after it) and never more than n calls *)
Definition made (cs : list (R * ((Ind + E) * R))) : nat :=
  length (filter (fun c => match fst (snd c) with inl _ => true | inr _ => false end) cs).
Lemma repeat_counts n pop r :
  match repeat_ n cm pop r with
  | (inl _, _) => length (calls n pop r) = n /\ made (calls n pop r) = n
  | (inr _, _) => length (calls n pop r) = S (made (calls n pop r)) /\ length (calls n pop r) <= n
  end.
Proof.
  revert r. induction n as [|n IH]; intros r; cbn [repeat_ calls]; [split; reflexivity|].
  destruct (cm pop r) as [[c|e] r1] eqn:Hc; cbn [fst snd].
  - specialize (IH r1). unfold made in *. cbn [filter fst snd length].
    destruct (repeat_ n cm pop r1) as [[cs|e] r2]; cbn [length]; lia.
  - unfold made. cbn [filter fst snd length]. lia.
Qed.
Theorem serial_counts pop r :
  match serial_next pop r with
  | (inl children, pop', _) => length (calls (length pop) pop r) = length pop /\ made (calls (length pop) pop r) = length pop /\
                               pop' = children /\ length pop' = length pop
  | (inr _, pop', _) => pop' = pop /\ length (calls (length pop) pop r) = S (made (calls (length pop) pop r)) /\
                        length (calls (length pop) pop r) <= length pop
  end.
Proof.
  unfold serial_next. pose proof (repeat_counts (length pop) pop r) as H.
  destruct (repeat_ (length pop) cm pop r) as [[cs|e] r1] eqn:Hr.
  - destruct H as [H1 H2]. repeat split; try assumption. eapply repeat_length; eassumption.
  - destruct H as [H1 H2]. repeat split; assumption.
Qed.

(* an empty population steps to an empty population without consulting the child maker or the generator *)
Theorem serial_empty r : serial_next [] r = (inl [], [], r).
Proof. reflexivity. Qed.

End Gen.

(* par_next: every child is made from the old population with its OWN independent generator
   (map_init(rand::rng, ..)); any schedule yields either all children in index order or the error
   of some failing child, with the population untouched *)
Section Par.
Context {Ind R E : Type} (cm : op R (list Ind) Ind E).

Definition child_of (pop : list Ind) (r : R) : Ind + E := fst (cm pop r).
Inductive par_result := POk (children : list Ind) | PErr (e : E).
Definition par_next_ok (pop : list Ind) (streams : list R) (res : par_result) (pop' : list Ind) : Prop :=
  length streams = length pop /\
  ((forall r, In r streams -> exists c, child_of pop r = inl c) ->
     exists children, res = POk children /\ pop' = children /\ map (@inl Ind E) children = map (child_of pop) streams) /\
  ((exists r e, In r streams /\ child_of pop r = inr e) ->
     exists r e, In r streams /\ child_of pop r = inr e /\ res = PErr e /\ pop' = pop).

Theorem par_len pop streams children pop' :
  par_next_ok pop streams (POk children) pop' -> (forall r, In r streams -> exists c, child_of pop r = inl c) ->
  pop' = children /\ length pop' = length pop.
Proof.
  intros [Hl [Hok _]] Hall. destruct (Hok Hall) as (cs & [= <-] & -> & Hm).
  split; [reflexivity|]. apply (f_equal (@length _)) in Hm. rewrite !map_length in Hm. congruence.
Qed.
Theorem par_atomic pop streams e pop' :
  par_next_ok pop streams (PErr e) pop' -> (exists r e0, In r streams /\ child_of pop r = inr e0) ->
  pop' = pop /\ exists r, In r streams /\ child_of pop r = inr e.
Proof.
  intros [_ [_ Herr]] Hex. destruct (Herr Hex) as (r & e0 & Hin & Hc & [= <-] & ->). eauto.
Qed.
End Par.

(* ------------------------------------------------------------------------------------------------
   The same step for ANY population type (`P: Population + FromIterator<Individual>`): the population
   knows its size, and the children are collected into a new population.  For a set-typed population
   `collect` merges equal children, so the size can change from one step to the next - and each step
   applies the child maker as many times as the population has members AT THAT STEP. *)
Section GenColl.
Context {P Ind R E : Type} (size : P -> nat) (collect : list Ind -> P) (cm : op R P Ind E).

Definition serial_next_c (pop : P) (r : R) : (unit + E) * P * R :=
  match repeat_ (size pop) cm pop r with
  | (inl children, r') => (inl tt, collect children, r')
  | (inr e, r') => (inr e, pop, r')
  end.

(* success: exactly size-many children, all made from the old population, collected *)
Theorem serial_c_success pop r pop' r' :
  serial_next_c pop r = (inl tt, pop', r') ->
  exists children, repeat_ (size pop) cm pop r = (inl children, r') /\ length children = size pop /\ pop' = collect children.
Proof.
  unfold serial_next_c. destruct (repeat_ (size pop) cm pop r) as [[cs|e] r1] eqn:Hr; intros H; inversion H; subst.
  exists cs. split; [reflexivity|]. split; [eapply repeat_length; eassumption|reflexivity].
Qed.
(* failure: the population is what it was and the error is a child maker's *)
Theorem serial_c_atomic pop r e pop' r' :
  serial_next_c pop r = (inr e, pop', r') -> pop' = pop /\ repeat_ (size pop) cm pop r = (inr e, r').
Proof.
  unfold serial_next_c. destruct (repeat_ (size pop) cm pop r) as [[cs|e0] r1]; intros H; inversion H; subst. split; reflexivity.
Qed.

(* several steps of one Generation value: the populations after each successful step (stepping stops at a failure) *)
Fixpoint steps_c (k : nat) (pop : P) (r : R) : list P :=
  match k with
  | O => []
  | S k' => match serial_next_c pop r with
            | (inl _, pop', r') => pop' :: steps_c k' pop' r'
            | (inr _, _, _) => []
            end
  end.

(* EVERY step follows the size the population has at that step - not the size it had when the Generation
   value was created, nor the size some earlier step saw *)
Theorem steps_follow_current_size k pop r i p_i p_next :
  nth_error (pop :: steps_c k pop r) i = Some p_i -> nth_error (pop :: steps_c k pop r) (S i) = Some p_next ->
  exists children, length children = size p_i /\ p_next = collect children.
Proof.
  revert pop r i. induction k as [|k IH]; intros pop r i; cbn [steps_c].
  - destruct i as [|[|i]]; cbn; discriminate.
  - destruct (serial_next_c pop r) as [[[u|e] pop1] r1] eqn:Hs.
    + destruct i as [|i]; cbn [nth_error].
      * intros [= <-] [= <-]. destruct u. destruct (serial_c_success _ _ _ _ Hs) as (cs & _ & Hl & Hp). eauto.
      * intros H1 H2. exact (IH pop1 r1 i H1 H2).
    + destruct i as [|[|i]]; cbn; discriminate.
Qed.
End GenColl.

(* a Vec population is the instance size = length, collect = identity: the first section's serial_next *)
Lemma serial_next_c_list {Ind R E} (cm : op R (list Ind) Ind E) pop r :
  serial_next_c (@length Ind) (fun l => l) cm pop r =
  match serial_next cm pop r with (inl _, pop', r') => (inl tt, pop', r') | (inr e, pop', r') => (inr e, pop', r') end.
Proof. unfold serial_next_c, serial_next. destruct (repeat_ (length pop) cm pop r) as [[cs|e] r1]; reflexivity. Qed.

(* an ordered set of integers as population (BTreeSet<i64>): what it keeps of the children it is handed *)
From Coq Require Import ZArith Sorted.
Fixpoint ins (x : Z) (l : list Z) : list Z :=
  match l with [] => [x] | y :: r => if (x <? y)%Z then x :: l else if (x =? y)%Z then l else y :: ins x r end.
Definition sort_dedup (l : list Z) : list Z := fold_right ins [] l.

Lemma ins_In x y l : In y (ins x l) <-> y = x \/ In y l.
Proof.
  induction l as [|z l IH]; cbn [ins].
  - cbn. intuition.
  - destruct (Z.ltb_spec x z) as [Hlt|Hge]; [cbn; intuition|].
    destruct (Z.eqb_spec x z) as [->|Hne]; [cbn; intuition|].
    cbn [In]. rewrite IH. intuition.
Qed.
Lemma ins_length x l : length (ins x l) <= S (length l).
Proof.
  induction l as [|z l IH]; cbn [ins]; [cbn; lia|].
  destruct (x <? z)%Z; [cbn; lia|]. destruct (x =? z)%Z; cbn; lia.
Qed.
Lemma ins_sorted x l : StronglySorted Z.lt l -> StronglySorted Z.lt (ins x l).
Proof.
  induction l as [|z l IH]; cbn [ins]; intros Hs.
  - constructor; constructor.
  - inversion Hs as [|? ? Hs' Hall]; subst.
    destruct (Z.ltb_spec x z) as [Hlt|Hge].
    + constructor; [exact Hs|]. constructor; [exact Hlt|]. rewrite Forall_forall in *. intros y Hy. specialize (Hall y Hy). lia.
    + destruct (Z.eqb_spec x z) as [->|Hne]; [exact Hs|].
      constructor; [exact (IH Hs')|]. rewrite Forall_forall in *. intros y Hy. apply ins_In in Hy. destruct Hy as [->|Hy]; [lia|auto].
Qed.
(* the set keeps exactly the distinct children, in order; it never has more members than children were made *)
Theorem sort_dedup_spec l :
  (forall y, In y (sort_dedup l) <-> In y l) /\ StronglySorted Z.lt (sort_dedup l) /\ length (sort_dedup l) <= length l.
Proof.
  induction l as [|x l (IHin & IHs & IHl)]; cbn [sort_dedup fold_right].
  - repeat split; [intros []|intros []|constructor|cbn; lia].
  - fold (sort_dedup l). repeat split.
    + rewrite ins_In, IHin. cbn. intuition.
    + rewrite ins_In, IHin. cbn. intuition.
    + apply ins_sorted, IHs.
    + pose proof (ins_length x (sort_dedup l)). cbn [length]. lia.
Qed.
(* colliding children make the population shrink: the next step then makes fewer children *)
Example set_population_shrinks :
  let cm : op nat (list Z) Z unit := fun pop r => (inl (Z.of_nat (r mod 2)), S r) in
  steps_c (@length Z) sort_dedup cm 3 [10; 13; 16; 19]%Z 0 = [[0; 1]; [0; 1]; [0; 1]]%Z.
Proof. reflexivity. Qed.
