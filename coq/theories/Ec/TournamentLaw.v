(* C07: the tournament law per individual, for populations without ties:
   P(individual i wins) = C(r - 1, k - 1) / C(n, k)   where r = #{j : key j <= key i} is i's rank. *)
From Coq Require Import List ZArith QArith Lia Bool Arith Lqa.
From UEC Require Import Base.Dist Ec.Select Ec.SelectProps Ec.LexProps.
Import ListNotations.
Local Open Scope nat_scope.

Lemma prob_ext_in A (d : dist A) P Q' : (forall a p, In (a, p) d -> P a = Q' a) -> (prob d P == prob d Q')%Q.
Proof.
  induction d as [|[a p] d IH]; intros H; cbn [prob]; [reflexivity|].
  rewrite (H a p (or_introl eq_refl)), IH; [reflexivity|]. intros b q Hb. apply (H b q). now right.
Qed.

Lemma prob_diff A (d : dist A) P Q' : (forall a, Q' a = true -> P a = true) ->
  (prob d (fun a => P a && negb (Q' a)) == prob d P - prob d Q')%Q.
Proof.
  intros H. induction d as [|[a p] d IH]; cbn [prob]; [ring|]. rewrite IH.
  destruct (Q' a) eqn:EQ; [rewrite (H a EQ)|destruct (P a)]; cbn [andb negb]; ring.
Qed.

(* every outcome listed by a (legal) tournament is an index of the population *)
Lemma tournament_outcomes pol pop k o p : 1 <= k <= length pop ->
  In (o, p) (select pol pop (STournament k)) -> exists j, o = inl j /\ j < length pop.
Proof.
  intros [Hk1 Hkn]. cbn [select]. destruct (Nat.ltb_spec (length pop) k); [lia|].
  unfold dbind. intros Hin. apply in_flat_map in Hin as ([t pt] & Ht & Hin).
  apply in_map_iff in Hin as ([o' q] & E & Ho). cbn in E. inversion E; subst. cbn in Ho. destruct Ho as [Ho|[]].
  inversion Ho; subst. unfold uniform in Ht. apply in_map_iff in Ht as (t' & Et & Ht). inversion Et; subst.
  apply sublists_spec in Ht as (Hl & Hs & _).
  destruct (last_max (ikey pol pop) t None) as [m|] eqn:M.
  - apply last_max_spec in M. destruct M as [[Hin|Hc] _]; [|discriminate].
    exists m. split; [reflexivity|]. apply Hs in Hin. apply in_seq in Hin. lia.
  - exfalso. revert M. apply last_max_some. left. destruct t; [cbn in Hl; lia|discriminate].
Qed.

Lemma pascal n k : binom (S n) (S k) = binom n k + binom n (S k).
Proof. reflexivity. Qed.

(* without ties, exactly one more individual has key <= v_i than has key <= v_i - 1: i itself *)
Lemma count_le_step (key : nat -> Z) (l : list nat) i :
  NoDup l -> In i l -> (forall a b, In a l -> In b l -> key a = key b -> a = b) ->
  count (fun j => (key j <=? key i)%Z) l = S (count (fun j => (key j <=? key i - 1)%Z) l).
Proof.
  unfold count. induction l as [|x l IH]; intros Hnd Hi Hinj; [destruct Hi|].
  inversion Hnd as [|? ? Hx Hnd']; subst. cbn [filter].
  destruct Hi as [->|Hi].
  - (* x = i: counted on the left, not on the right; in the tail nobody has key i *)
    rewrite Z.leb_refl. destruct (Z.leb_spec (key i) (key i - 1)); [lia|]. cbn [length]. f_equal.
    f_equal. apply filter_ext_in. intros j Hj.
    assert (key j <> key i) by (intros E; apply Hx; rewrite <- (Hinj j i (or_intror Hj) (or_introl eq_refl) E); exact Hj).
    destruct (Z.leb_spec (key j) (key i)), (Z.leb_spec (key j) (key i - 1)); try reflexivity; lia.
  - assert (Hne : key x <> key i).
    { intros E. apply Hx. rewrite (Hinj x i (or_introl eq_refl) (or_intror Hi) E). exact Hi. }
    assert (IH' := IH Hnd' Hi (fun a b Ha Hb => Hinj a b (or_intror Ha) (or_intror Hb))).
    destruct (Z.leb_spec (key x) (key i)), (Z.leb_spec (key x) (key i - 1)); cbn [length]; try lia.
Qed.

Theorem tournament_rank_law pol pop k i :
  1 <= k <= length pop -> i < length pop ->
  (forall a b, a < length pop -> b < length pop -> ikey pol pop a = ikey pol pop b -> a = b) ->
  let r := count (fun j => (ikey pol pop j <=? ikey pol pop i)%Z) (seq 0 (length pop)) in
  (prob (select pol pop (STournament k)) (is_idx i) == qnat (binom (r - 1) (k - 1)) / qnat (binom (length pop) k))%Q.
Proof.
  intros Hk Hi Hinj r.
  set (v := ikey pol pop i).
  (* winning = having key v = (key <= v) and not (key <= v - 1), on the outcomes that can be listed *)
  rewrite (prob_ext_in _ _ _ (fun o => key_le pol pop v o && negb (key_le pol pop (v - 1) o))).
  2:{ intros o p Hin. destruct (tournament_outcomes pol pop k o p Hk Hin) as (j & -> & Hj). cbn [is_idx key_le].
      destruct (Nat.eqb_spec i j) as [->|Hne].
      - fold v. rewrite Z.leb_refl. destruct (Z.leb_spec v (v - 1)); [lia|reflexivity].
      - assert (ikey pol pop j <> v) by (intros E; apply Hne; symmetry; now apply Hinj).
        destruct (Z.leb_spec (ikey pol pop j) v), (Z.leb_spec (ikey pol pop j) (v - 1)); try reflexivity; lia. }
  rewrite prob_diff.
  2:{ intros [j|e]; cbn [key_le]; [|discriminate]. rewrite !Z.leb_le. lia. }
  rewrite !tournament_cdf by exact Hk.
  set (c1 := count (fun j => (ikey pol pop j <=? v)%Z) (seq 0 (length pop))).
  set (c0 := count (fun j => (ikey pol pop j <=? v - 1)%Z) (seq 0 (length pop))).
  assert (Hr : c1 = S c0).
  { apply count_le_step; [apply seq_NoDup|apply in_seq; lia|].
    intros a b Ha Hb. apply in_seq in Ha, Hb. apply Hinj; lia. }
  change r with c1. rewrite Hr.
  replace (S c0 - 1) with c0 by lia.
  destruct k as [|k]; [lia|]. replace (S k - 1) with k by lia. rewrite pascal.
  assert (Hpos : (0 < qnat (binom (length pop) (S k)))%Q) by (apply qnat_pos, binom_pos; lia).
  unfold qnat. rewrite Nat2Z.inj_add, inject_Z_plus. field. unfold qnat in Hpos. lra.
Qed.
