(* Operator combinators (ec-core/src/operator/composable/*, identity, constant,
   wrappers).  An operator is a function  input -> state -> (output + error) * state
   where the state is whatever is threaded through every call - in particular the
   shared random stream.  All components are arbitrary (universally quantified). *)
From Coq Require Import List ZArith Lia.
Import ListNotations.

Definition op (S A B E : Type) := A -> S -> (B + E) * S.

Inductive two_err (E1 E2 : Type) := First (e : E1) | Second (e : E2).
Arguments First {E1 E2}. Arguments Second {E1 E2}.
Inductive map_err (E : Type) := MapError (e : E) (index : nat).
Arguments MapError {E}.

Section Comb.
Context {S : Type}.

(* `?` = early return *)
Definition then_ {A B C E1 E2} (f : op S A B E1) (g : op S B C E2) : op S A C (two_err E1 E2) :=
  fun x s =>
    match f x s with
    | (inr e, s1) => (inr (First e), s1)
    | (inl y, s1) =>
      match g y s1 with
      | (inr e, s2) => (inr (Second e), s2)
      | (inl z, s2) => (inl z, s2)
      end
    end.

Definition and_ {A B C E1 E2} (f : op S A B E1) (g : op S A C E2) : op S A (B * C) (two_err E1 E2) :=
  fun x s =>
    match f x s with
    | (inr e, s1) => (inr (First e), s1)
    | (inl y, s1) =>
      match g x s1 with
      | (inr e, s2) => (inr (Second e), s2)
      | (inl z, s2) => (inl (y, z), s2)
      end
    end.

(* map over the elements in index order, stopping at the first failure *)
Fixpoint map_from {A B E} (f : op S A B E) (i : nat) (l : list A) (s : S) : (list B + map_err E) * S :=
  match l with
  | [] => (inl [], s)
  | x :: r =>
    match f x s with
    | (inr e, s1) => (inr (MapError e i), s1)
    | (inl y, s1) =>
      match map_from f (Datatypes.S i) r s1 with
      | (inr e, s2) => (inr e, s2)
      | (inl ys, s2) => (inl (y :: ys), s2)
      end
    end
  end.
Definition map_vec {A B E} (f : op S A B E) : op S (list A) (list B) (map_err E) := map_from f 0.
Definition map_pair {A B E} (f : op S A B E) : op S (A * A) (B * B) (map_err E) :=
  fun '(x, y) s =>
    match f x s with
    | (inr e, s1) => (inr (MapError e 0), s1)
    | (inl a, s1) =>
      match f y s1 with
      | (inr e, s2) => (inr (MapError e 1), s2)
      | (inl b, s2) => (inl (a, b), s2)
      end
    end.

(* repeat: N applications to copies of the input; the component's own error is passed on *)
Fixpoint repeat_ {A B E} (n : nat) (f : op S A B E) (x : A) (s : S) : (list B + E) * S :=
  match n with
  | O => (inl [], s)
  | Datatypes.S n' =>
    match f x s with
    | (inr e, s1) => (inr e, s1)
    | (inl y, s1) =>
      match repeat_ n' f x s1 with
      | (inr e, s2) => (inr e, s2)
      | (inl ys, s2) => (inl (y :: ys), s2)
      end
    end
  end.

Definition identity {A E} : op S A A E := fun x s => (inl x, s).
Definition constant {A B E} (v : B) : op S A B E := fun _ s => (inl v, s).
(* Select / Mutate / Recombine / by-reference wrappers: the wrapped operator, unchanged *)
Definition wrap {A B E} (f : op S A B E) : op S A B E := fun x s => f x s.

(* ---------- the combinators are faithful ---------- *)
Lemma then_ok {A B C E1 E2} (f : op S A B E1) (g : op S B C E2) x s y s1 z s2 :
  f x s = (inl y, s1) -> g y s1 = (inl z, s2) -> then_ f g x s = (inl z, s2).
Proof. unfold then_. now intros -> ->. Qed.
(* the first failing part stops the pipeline: the state (random stream included) is exactly
   what the failing part left; the later part neither ran nor drew *)
Lemma then_first_fails {A B C E1 E2} (f : op S A B E1) (g : op S B C E2) x s e s1 :
  f x s = (inr e, s1) -> then_ f g x s = (inr (First e), s1).
Proof. unfold then_. now intros ->. Qed.
Lemma then_second_fails {A B C E1 E2} (f : op S A B E1) (g : op S B C E2) x s y s1 e s2 :
  f x s = (inl y, s1) -> g y s1 = (inr e, s2) -> then_ f g x s = (inr (Second e), s2).
Proof. unfold then_. now intros -> ->. Qed.

Lemma and_ok {A B C E1 E2} (f : op S A B E1) (g : op S A C E2) x s y s1 z s2 :
  f x s = (inl y, s1) -> g x s1 = (inl z, s2) -> and_ f g x s = (inl (y, z), s2).
Proof. unfold and_. now intros -> ->. Qed.
Lemma and_first_fails {A B C E1 E2} (f : op S A B E1) (g : op S A C E2) x s e s1 :
  f x s = (inr e, s1) -> and_ f g x s = (inr (First e), s1).
Proof. unfold and_. now intros ->. Qed.
Lemma and_second_fails {A B C E1 E2} (f : op S A B E1) (g : op S A C E2) x s y s1 e s2 :
  f x s = (inl y, s1) -> g x s1 = (inr e, s2) -> and_ f g x s = (inr (Second e), s2).
Proof. unfold and_. now intros -> ->. Qed.

(* map: characterised by a left-to-right fold; the error names the failing index *)
Lemma map_from_app {A B E} (f : op S A B E) l1 l2 i s :
  map_from f i (l1 ++ l2) s =
  match map_from f i l1 s with
  | (inr e, s1) => (inr e, s1)
  | (inl ys, s1) =>
    match map_from f (i + length l1) l2 s1 with
    | (inr e, s2) => (inr e, s2)
    | (inl zs, s2) => (inl (ys ++ zs), s2)
    end
  end.
Proof.
  revert i s. induction l1 as [|x l1 IH]; intros i s; cbn [map_from app length].
  - rewrite Nat.add_0_r. destruct (map_from f i l2 s) as [[zs|e] s2]; reflexivity.
  - destruct (f x s) as [[y|e] s1]; [|reflexivity].
    rewrite IH. replace (Datatypes.S i + length l1) with (i + Datatypes.S (length l1)) by lia.
    destruct (map_from f (Datatypes.S i) l1 s1) as [[ys|e] s2]; [|reflexivity].
    destruct (map_from f (i + Datatypes.S (length l1)) l2 s2) as [[zs|e] s3]; reflexivity.
Qed.

Lemma map_vec_ok_length {A B E} (f : op S A B E) l i s ys s' :
  map_from f i l s = (inl ys, s') -> length ys = length l.
Proof.
  revert i s ys s'. induction l as [|x l IH]; intros i s ys s'; cbn [map_from].
  - intros H; inversion H; reflexivity.
  - destruct (f x s) as [[y|e] s1]; [|discriminate].
    destruct (map_from f (Datatypes.S i) l s1) as [[zs|e] s2] eqn:Hm; [|discriminate].
    intros H; inversion H; subst. cbn. f_equal. eapply IH; eassumption.
Qed.

(* the failing index is a real position, every element before it succeeded, none after it ran *)
Lemma map_vec_error_index {A B E} (f : op S A B E) l i s e k s' :
  map_from f i l s = (inr (MapError e k), s') ->
  exists pre x post ys s0, l = pre ++ x :: post /\ k = i + length pre /\
    map_from f i pre s = (inl ys, s0) /\ f x s0 = (inr e, s').
Proof.
  revert i s. induction l as [|x l IH]; intros i s; cbn [map_from]; [discriminate|].
  destruct (f x s) as [[y|e0] s1] eqn:F.
  - destruct (map_from f (Datatypes.S i) l s1) as [[zs|e1] s2] eqn:M; [discriminate|].
    intros H; inversion H; subst. destruct (IH _ _ M) as (pre & x0 & post & ys & s0 & -> & -> & Hp & Hf).
    exists (x :: pre), x0, post, (y :: ys), s0. cbn [app length map_from]. rewrite F, Hp.
    repeat split; try assumption. lia.
  - intros H; inversion H; subst. exists [], x, l, [], s. cbn. rewrite Nat.add_0_r. auto.
Qed.


Lemma map_pair_spec {A B E} (f : op S A B E) x y s :
  match map_pair f (x, y) s, map_vec f [x; y] s with
  | (inl (a, b), s1), (inl l, s2) => l = [a; b] /\ s1 = s2
  | (inr e1, s1), (inr e2, s2) => e1 = e2 /\ s1 = s2
  | _, _ => False
  end.
Proof.
  unfold map_vec. cbn [map_pair map_from]. destruct (f x s) as [[a|e] s1]; [|auto].
  destruct (f y s1) as [[b|e] s2]; auto.
Qed.

(* repetition = mapping over n copies of the input (modulo the MapError wrapper) *)
Lemma repeat_as_map {A B E} (f : op S A B E) n x s i :
  match repeat_ n f x s, map_from f i (repeat x n) s with
  | (inl l1, s1), (inl l2, s2) => l1 = l2 /\ s1 = s2
  | (inr e1, s1), (inr (MapError e2 _), s2) => e1 = e2 /\ s1 = s2
  | _, _ => False
  end.
Proof.
  revert s i. induction n as [|n IH]; intros s i; cbn [repeat_ repeat map_from]; [auto|].
  destruct (f x s) as [[y|e] s1]; [|auto].
  specialize (IH s1 (Datatypes.S i)).
  destruct (repeat_ n f x s1) as [[l1|e1] s2], (map_from f (Datatypes.S i) (repeat x n) s1) as [[l2|[e2 k]] s3];
    try contradiction; destruct IH as [-> ->]; auto.
Qed.

Lemma repeat_length {A B E} (f : op S A B E) n x s l s' : repeat_ n f x s = (inl l, s') -> length l = n.
Proof.
  revert s l s'. induction n as [|n IH]; intros s l s'; cbn [repeat_].
  - intros H; inversion H; reflexivity.
  - destruct (f x s) as [[y|e] s1]; [|discriminate].
    destruct (repeat_ n f x s1) as [[ys|e] s2] eqn:R; [|discriminate].
    intros H; inversion H; subst. cbn. f_equal. eapply IH; eassumption.
Qed.

(* algebra, for arbitrary nesting *)
Lemma identity_left {A B E E0} (f : op S A B E) x s :
  then_ (@identity A E0) f x s = match f x s with (inl y, s') => (inl y, s') | (inr e, s') => (inr (Second e), s') end.
Proof. unfold then_, identity. destruct (f x s) as [[y|e] s']; reflexivity. Qed.
Lemma identity_right {A B E E0} (f : op S A B E) x s :
  then_ f (@identity B E0) x s = match f x s with (inl y, s') => (inl y, s') | (inr e, s') => (inr (First e), s') end.
Proof. unfold then_, identity. destruct (f x s) as [[y|e] s']; reflexivity. Qed.
Lemma wrap_transparent {A B E} (f : op S A B E) x s : wrap f x s = f x s.
Proof. reflexivity. Qed.
Lemma constant_ignores {A B E} (v : B) (x y : A) s : @constant A B E v x s = @constant A B E v y s /\ snd (@constant A B E v x s) = s.
Proof. split; reflexivity. Qed.

Definition reassoc {E1 E2 E3} (e : two_err (two_err E1 E2) E3) : two_err E1 (two_err E2 E3) :=
  match e with
  | First (First a) => First a
  | First (Second b) => Second (First b)
  | Second c => Second (Second c)
  end.
Lemma then_assoc {A B C D E1 E2 E3} (f : op S A B E1) (g : op S B C E2) (h : op S C D E3) x s :
  then_ f (then_ g h) x s =
  match then_ (then_ f g) h x s with (inl z, s') => (inl z, s') | (inr e, s') => (inr (reassoc e), s') end.
Proof.
  unfold then_. destruct (f x s) as [[y|e] s1]; [|reflexivity].
  destruct (g y s1) as [[z|e] s2]; [|reflexivity].
  destruct (h z s2) as [[w|e] s3]; reflexivity.
Qed.
(* no hidden state: the state after a composition is exactly what its parts left, in order *)
Lemma then_threads_state {A B C E1 E2} (f : op S A B E1) (g : op S B C E2) x s :
  snd (then_ f g x s) = match f x s with (inl y, s1) => snd (g y s1) | (inr _, s1) => s1 end.
Proof. unfold then_. destruct (f x s) as [[y|e] s1]; [|reflexivity]. destruct (g y s1) as [[z|e] s2]; reflexivity. Qed.
Lemma and_threads_state {A B C E1 E2} (f : op S A B E1) (g : op S A C E2) x s :
  snd (and_ f g x s) = match f x s with (inl _, s1) => snd (g x s1) | (inr _, s1) => s1 end.
Proof. unfold and_. destruct (f x s) as [[y|e] s1]; [|reflexivity]. destruct (g x s1) as [[z|e] s2]; reflexivity. Qed.
End Comb.
