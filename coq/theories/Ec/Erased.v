(* Type-erased (dyn) forms of operators (ec-core/src/operator/**/erased.rs,
   child_maker/erased.rs, ec-macros dyn_ref_impls): the blanket impl calls the wrapped
   operator with the same generator and converts the error with Into; the pointer
   flavours delegate through a dereference. *)
From Coq Require Import List.
From UEC Require Import Ec.Compose.

Section Erased.
Context {S A B E E' : Type}.

Definition erase (into : E -> E') (f : op S A B E) : op S A B E' :=
  fun x s => match f x s with
             | (inl v, s') => (inl v, s')
             | (inr e, s') => (inr (into e), s')
             end.
(* &T, &mut T, Box<T>, Rc<T>, Arc<T>, Ref<T>, RefMut<T>, with or without Send / Sync: a dereference, then the dyn call *)
Definition through_pointer (f : op S A B E') : op S A B E' := fun x s => f x s.

Lemma erase_value (into : E -> E') f x s v s' : f x s = (inl v, s') -> erase into f x s = (inl v, s').
Proof. unfold erase. now intros ->. Qed.
Lemma erase_error (into : E -> E') f x s e s' : f x s = (inr e, s') -> erase into f x s = (inr (into e), s').
Proof. unfold erase. now intros ->. Qed.
(* the random stream (and any other threaded state) is consumed identically *)
Lemma erase_state (into : E -> E') f x s : snd (erase into f x s) = snd (f x s).
Proof. unfold erase. destruct (f x s) as [[v|e] s']; reflexivity. Qed.
Lemma erase_success_iff (into : E -> E') f x s :
  (exists v s', erase into f x s = (inl v, s')) <-> (exists v s', f x s = (inl v, s')).
Proof.
  unfold erase. destruct (f x s) as [[v|e] s']; split; intros [v0 [s0 H]]; try discriminate; eauto.
Qed.
Lemma pointer_transparent (into : E -> E') f x s : through_pointer (erase into f) x s = erase into f x s.
Proof. reflexivity. Qed.
End Erased.

Lemma erase_id {S A B E} (f : op S A B E) x s : erase (fun e => e) f x s = f x s.
Proof. unfold erase. destruct (f x s) as [[v|e] s']; reflexivity. Qed.
Lemma erase_twice {S A B E E' E''} (i1 : E -> E') (i2 : E' -> E'') (f : op S A B E) x s :
  erase i2 (erase i1 f) x s = erase (fun e => i2 (i1 e)) f x s.
Proof. unfold erase. destruct (f x s) as [[v|e] s']; reflexivity. Qed.
