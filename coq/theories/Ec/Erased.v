(* Type-erased (dyn) forms of operators (ec-core/src/operator/**/erased.rs,
   child_maker/erased.rs, ec-macros dyn_ref_impls): the blanket impl calls the wrapped
   operator with the same generator and converts the error with Into; the pointer
   flavours delegate through a dereference. *)
From Coq Require Import List ZArith.
From UEC Require Import Ec.Compose.
Import ListNotations.

Section Erased.
Context {S A B E E' : Type}.

Definition erase (into : E -> E') (f : op S A B E) : op S A B E' :=
  fun x s => match f x s with
             | (inl v, s') => (inl v, s')
             | (inr e, s') => (inr (into e), s')
             end.
(* &T, &mut T, Box<T>, Rc<T>, Arc<T>, Ref<T>, RefMut<T>, with or without Send / Sync: a dereference, then the dyn call *)
Definition through_pointer (f : op S A B E') : op S A B E' := fun x s => f x s.

Lemma erase_value (into : E -> E') f x s v s' : f x s = (inl v, s') -> erase into f x s = (inl v, s').
Proof. unfold erase. now intros ->. Qed.
Lemma erase_error (into : E -> E') f x s e s' : f x s = (inr e, s') -> erase into f x s = (inr (into e), s').
Proof. unfold erase. now intros ->. Qed.
(* the random stream (and any other threaded state) is consumed identically *)
Lemma erase_state (into : E -> E') f x s : snd (erase into f x s) = snd (f x s).
Proof. unfold erase. destruct (f x s) as [[v|e] s']; reflexivity. Qed.
Lemma erase_success_iff (into : E -> E') f x s :
  (exists v s', erase into f x s = (inl v, s')) <-> (exists v s', f x s = (inl v, s')).
Proof.
  unfold erase. destruct (f x s) as [[v|e] s']; split; intros [v0 [s0 H]]; try discriminate; eauto.
Qed.
Lemma pointer_transparent (into : E -> E') f x s : through_pointer (erase into f) x s = erase into f x s.
Proof. reflexivity. Qed.
End Erased.

Lemma erase_id {S A B E} (f : op S A B E) x s : erase (fun e => e) f x s = f x s.
Proof. unfold erase. destruct (f x s) as [[v|e] s']; reflexivity. Qed.
Lemma erase_twice {S A B E E' E''} (i1 : E -> E') (i2 : E' -> E'') (f : op S A B E) x s :
  erase i2 (erase i1 f) x s = erase (fun e => i2 (i1 e)) f x s.
Proof. unfold erase. destruct (f x s) as [[v|e] s']; reflexivity. Qed.

(* A CONSUMER of erased selectors: DynWeighted (ec-core/src/operator/selector/dyn_weighted.rs) keeps its options as
   Box<dyn DynSelector> and hands an option's error on as Other(Box<option's error>).  Its error type is recursive (an
   option may itself be a DynWeighted); modelled on FORCED lists - at most one option of positive weight, so that the
   outcome does not depend on the draw. *)
Inductive derr := DZero | DEmptyPop | DOther (e : derr) | DLeaf (code : Z).
Inductive dspec := DL (k : Z) | DD (ms : list (dspec * Z)).
(* what erasing with into = DOther does to an outcome *)
Definition wrap_other (r : Z + derr) : Z + derr := match r with inl k => inl k | inr e => inr (DOther e) end.
Fixpoint forced (fuel : nat) (d : dspec) : option (Z + derr) :=
  match fuel with
  | O => None
  | Datatypes.S f =>
    match d with
    | DL k => Some (if (0 <=? k)%Z then inl k else inr (DLeaf (- k)))
    | DD ms => match filter (fun m => (0 <? snd m)%Z) ms with
               | [] => Some (inr DZero)
               | [(m, _)] => option_map wrap_other (forced f m)
               | _ => None
               end
    end
  end.

Lemma wrap_other_is_erase (r : Z + derr) : fst (erase DOther (fun (_ : unit) (s : unit) => (r, s)) tt tt) = wrap_other r.
Proof. unfold erase, wrap_other. destruct r; reflexivity. Qed.
(* the only option of positive weight decides, and its error arrives wrapped exactly once *)
Lemma forced_only_member f m w : (0 < w)%Z -> forced (Datatypes.S f) (DD [(m, w)]) = option_map wrap_other (forced f m).
Proof. intros H. cbn [forced filter snd]. apply Z.ltb_lt in H. rewrite H. reflexivity. Qed.
(* options of weight zero are never used *)
Lemma forced_zero_weight_ignored f m ms : forced (Datatypes.S f) (DD ((m, 0%Z) :: ms)) = forced (Datatypes.S f) (DD ms).
Proof. reflexivity. Qed.
(* a list never reports an option's error as its own: what it reports is its own zero-weight error or Other(..) *)
Lemma forced_never_unwraps f ms e : forced f (DD ms) = Some (inr e) -> e = DZero \/ exists e', e = DOther e'.
Proof.
  destruct f as [|f]; [discriminate|]. cbn [forced].
  destruct (filter (fun m => (0 <? snd m)%Z) ms) as [|[m w] [|x r]]; [intros [= <-]; now left| |discriminate].
  destruct (forced f m) as [[k|e0]|]; cbn [option_map wrap_other]; [discriminate| |discriminate].
  intros [= <-]. right. eauto.
Qed.
(* the number of Other layers is the nesting depth of the list that failed *)
Fixpoint others (e : derr) : nat := match e with DOther e' => Datatypes.S (others e') | _ => O end.
Lemma forced_nested_once_more f m w e :
  (0 < w)%Z -> forced f m = Some (inr e) -> exists e', forced (Datatypes.S f) (DD [(m, w)]) = Some (inr e') /\ others e' = Datatypes.S (others e).
Proof. intros H He. rewrite (forced_only_member f m w H), He. cbn. eauto. Qed.
