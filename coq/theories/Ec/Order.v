(* Scores, errors, test results and individuals: ordering and aggregation
   (ec-core/src/test_results.rs, individual/ec.rs, operator/genome_scorer.rs). *)
From Coq Require Import List ZArith Bool Lia Floats.
From UEC Require Import Base.F64.
Import ListNotations.
Local Open Scope Z_scope.

(* Rust's comparison operators, all derived from one three-way comparison *)
Record ops := { o_lt : bool; o_le : bool; o_gt : bool; o_ge : bool; o_cmp : option comparison }.
Definition ops_of (c : option comparison) : ops :=
  {| o_lt := match c with Some Lt => true | _ => false end;
     o_le := match c with Some Lt | Some Eq => true | _ => false end;
     o_gt := match c with Some Gt => true | _ => false end;
     o_ge := match c with Some Gt | Some Eq => true | _ => false end;
     o_cmp := c |}.

(* Score: bigger is better (ascending); Error: smaller is better (the order is reversed) *)
Definition score_cmp (a b : Z) : comparison := a ?= b.
Definition error_cmp (a b : Z) : comparison := CompOpp (a ?= b).

Inductive tres := RScore (z : Z) | RError (z : Z).
Definition tres_pcmp (a b : tres) : option comparison :=
  match a, b with
  | RScore x, RScore y => Some (score_cmp x y)
  | RError x, RError y => Some (error_cmp x y)
  | _, _ => None
  end.
Definition tres_eqb (a b : tres) : bool :=
  match a, b with RScore x, RScore y | RError x, RError y => x =? y | _, _ => false end.

(* TestResults: the per-case results in the order given, and their total *)
Record results := { cases : list Z; total : Z }.
Definition results_from (l : list Z) : results := {| cases := l; total := fold_left Z.add l 0 |}.
Definition results_cmp (c : Z -> Z -> comparison) (a b : results) : comparison := c (total a) (total b).

(* EcIndividual: compared by its results only; the genome is never consulted *)
Record individual (G : Type) := { genome : G; res : results }.
Arguments genome {G}. Arguments res {G}.
Definition individual_cmp {G} (c : Z -> Z -> comparison) (a b : individual G) : comparison :=
  results_cmp c (res a) (res b).

(* scoring a genome: GenomeScorer / IndividualGenerator *)
Definition score_genome {G St E} (maker : St -> (G + E) * St) (scorer : G -> results) (st : St)
  : (individual G + E) * St :=
  match maker st with
  | (inl g, st') => (inl {| genome := g; res := scorer g |}, st')
  | (inr e, st') => (inr e, st')
  end.

(* ---------- laws ---------- *)
Definition le_of (c : Z -> Z -> comparison) (a b : Z) : Prop := c a b <> Gt.

Lemma score_cmp_refl a : score_cmp a a = Eq. Proof. apply Z.compare_refl. Qed.
Lemma score_cmp_eq a b : score_cmp a b = Eq <-> a = b. Proof. apply Z.compare_eq_iff. Qed.
Lemma score_cmp_antisym a b : score_cmp b a = CompOpp (score_cmp a b). Proof. apply Z.compare_antisym. Qed.
Lemma score_cmp_trans a b c : le_of score_cmp a b -> le_of score_cmp b c -> le_of score_cmp a c.
Proof. unfold le_of, score_cmp. rewrite !Z.compare_gt_iff. lia. Qed.
Lemma score_cmp_total a b : le_of score_cmp a b \/ le_of score_cmp b a.
Proof. unfold le_of, score_cmp. rewrite !Z.compare_gt_iff. lia. Qed.
Lemma score_ascending a b : score_cmp a b = Lt <-> a < b. Proof. apply Z.compare_lt_iff. Qed.

Lemma error_reverses a b : error_cmp a b = CompOpp (score_cmp a b). Proof. reflexivity. Qed.
Lemma error_cmp_refl a : error_cmp a a = Eq. Proof. unfold error_cmp. now rewrite Z.compare_refl. Qed.
Lemma error_cmp_eq a b : error_cmp a b = Eq <-> a = b.
Proof. unfold error_cmp. destruct (Z.compare_spec a b); cbn; split; try congruence; lia. Qed.
Lemma error_cmp_antisym a b : error_cmp b a = CompOpp (error_cmp a b).
Proof. unfold error_cmp. now rewrite (Z.compare_antisym a b). Qed.
Lemma error_cmp_trans a b c : le_of error_cmp a b -> le_of error_cmp b c -> le_of error_cmp a c.
Proof.
  unfold le_of, error_cmp.
  destruct (Z.compare_spec a b), (Z.compare_spec b c), (Z.compare_spec a c); cbn; try congruence; lia.
Qed.
Lemma error_cmp_total a b : le_of error_cmp a b \/ le_of error_cmp b a.
Proof.
  unfold le_of, error_cmp.
  destruct (Z.compare_spec a b), (Z.compare_spec b a); cbn; auto; try (left; congruence); try (right; congruence); lia.
Qed.
Lemma error_descending a b : error_cmp a b = Lt <-> b < a.
Proof. unfold error_cmp. destruct (Z.compare_spec a b); cbn; split; try congruence; lia. Qed.

(* the four comparison operators agree with the three-way comparison *)
Lemma ops_consistent c :
  let o := ops_of c in
  (o_le o = o_lt o || match c with Some Eq => true | _ => false end) /\
  (o_ge o = o_gt o || match c with Some Eq => true | _ => false end) /\
  (o_lt o && o_gt o = false) /\
  (c <> None -> o_le o = negb (o_gt o) /\ o_ge o = negb (o_lt o)) /\
  (c = None -> o_lt o = false /\ o_le o = false /\ o_gt o = false /\ o_ge o = false).
Proof. destruct c as [[| |]|]; cbn; repeat split; intros; congruence. Qed.

(* a score is never comparable to an error *)
Lemma score_error_incomparable x y :
  tres_pcmp (RScore x) (RError y) = None /\ tres_pcmp (RError y) (RScore x) = None /\
  tres_eqb (RScore x) (RError y) = false.
Proof. repeat split. Qed.

Lemma fold_add_acc l a : fold_left Z.add l a = a + fold_left Z.add l 0.
Proof. revert a. induction l as [|x l IH]; intros a; cbn; [lia|]. rewrite (IH (a + x)), (IH x). lia. Qed.

(* total = sum of the per-case results, which are kept in the order given *)
Lemma total_is_sum l : cases (results_from l) = l /\ total (results_from l) = fold_right Z.add 0 l.
Proof.
  split; [reflexivity|]. cbn. induction l as [|x l IH]; [reflexivity|]. cbn. rewrite fold_add_acc. cbn in IH. lia.
Qed.
Lemma total_app l m : total (results_from (l ++ m)) = total (results_from l) + total (results_from m).
Proof. cbn. rewrite fold_left_app, fold_add_acc. reflexivity. Qed.

Lemma results_cmp_by_total c a b : results_cmp c a b = c (total a) (total b).
Proof. reflexivity. Qed.
Lemma individual_cmp_by_results {G} c (a b : individual G) :
  individual_cmp c a b = results_cmp c (res a) (res b) /\
  forall g g' : G, individual_cmp c {| genome := g; res := res a |} {| genome := g'; res := res b |} = individual_cmp c a b.
Proof. split; reflexivity. Qed.

Lemma scorer_consistent {G St E} (maker : St -> (G + E) * St) scorer st i st' :
  score_genome maker scorer st = (inl i, st') ->
  maker st = (inl (genome i), st') /\ res i = scorer (genome i).
Proof. unfold score_genome. destruct (maker st) as [[g|e] s]; intros H; inversion H; subst. now cbn. Qed.
Lemma scorer_propagates_failure {G St E} (maker : St -> (G + E) * St) scorer st e st' :
  maker st = (inr e, st') -> score_genome maker scorer st = (inr e, st').
Proof. unfold score_genome. now intros ->. Qed.

Lemma score_total_order a b c :
  score_cmp a a = Eq /\ (score_cmp a b = Eq <-> a = b) /\ score_cmp b a = CompOpp (score_cmp a b) /\
  (le_of score_cmp a b -> le_of score_cmp b c -> le_of score_cmp a c) /\
  (le_of score_cmp a b \/ le_of score_cmp b a) /\ (score_cmp a b = Lt <-> a < b).
Proof.
  split; [apply score_cmp_refl|]. split; [apply score_cmp_eq|]. split; [apply score_cmp_antisym|].
  split; [apply score_cmp_trans|]. split; [apply score_cmp_total|apply score_ascending].
Qed.
Lemma error_total_order a b c :
  error_cmp a a = Eq /\ (error_cmp a b = Eq <-> a = b) /\ error_cmp b a = CompOpp (error_cmp a b) /\
  (le_of error_cmp a b -> le_of error_cmp b c -> le_of error_cmp a c) /\
  (le_of error_cmp a b \/ le_of error_cmp b a) /\ (error_cmp a b = Lt <-> b < a).
Proof.
  split; [apply error_cmp_refl|]. split; [apply error_cmp_eq|]. split; [apply error_cmp_antisym|].
  split; [apply error_cmp_trans|]. split; [apply error_cmp_total|apply error_descending].
Qed.

(* ---------- min / max / clamp (Ord's provided methods) ---------- *)
(* std: max(a, b) = if a > b then a else b; min(a, b) = if a > b then b else a (with the type's own order);
   clamp(x, lo, hi) = if x < lo then lo else if x > hi then hi else x, for lo <= hi *)
Definition omax (c : Z -> Z -> comparison) (a b : Z) : Z := match c a b with Gt => a | _ => b end.
Definition omin (c : Z -> Z -> comparison) (a b : Z) : Z := match c a b with Gt => b | _ => a end.
Definition oclamp (c : Z -> Z -> comparison) (x lo hi : Z) : Z :=
  match c x lo with Lt => lo | _ => match c x hi with Gt => hi | _ => x end end.

Lemma omax_omin_score a b : omax score_cmp a b = Z.max a b /\ omin score_cmp a b = Z.min a b.
Proof.
  unfold omax, omin, score_cmp, Z.max, Z.min. destruct (a ?= b) eqn:E; try (split; reflexivity).
  apply Z.compare_eq in E. subst. split; reflexivity.
Qed.
(* for errors the better (= greater) value is the numerically smaller one *)
Lemma omax_omin_error a b : omax error_cmp a b = Z.min a b /\ omin error_cmp a b = Z.max a b.
Proof.
  unfold omax, omin, error_cmp, Z.max, Z.min. destruct (a ?= b) eqn:E; cbn [CompOpp]; try (split; reflexivity).
  apply Z.compare_eq in E. subst. split; reflexivity.
Qed.
(* in either order: max is an upper and min a lower bound, and both are one of the arguments *)
Lemma omax_bound c a b : (c = score_cmp \/ c = error_cmp) ->
  c (omax c a b) a <> Lt /\ c (omax c a b) b <> Lt /\ c (omin c a b) a <> Gt /\ c (omin c a b) b <> Gt /\
  (omax c a b = a \/ omax c a b = b) /\ (omin c a b = a \/ omin c a b = b).
Proof.
  intros [-> | ->]; unfold omax, omin, score_cmp, error_cmp;
    destruct (a ?= b) eqn:E; cbn [CompOpp]; rewrite ?Z.compare_refl; cbn [CompOpp];
    try (apply Z.compare_eq in E; subst; rewrite ?Z.compare_refl; cbn [CompOpp]);
    repeat split; try discriminate; auto;
    try (rewrite Z.compare_antisym, E; cbn; discriminate); try (rewrite E; cbn; discriminate).
Qed.

(* ---- floating-point results: addition is not associative, so "the sum of the per-case results IN THE ORDER
   GIVEN" is a left-to-right fold and nothing else (z = the value an empty sum has: Rust's -0.0) ---- *)
Definition ftotal (z : float) (l : list float) : float := fold_left PrimFloat.add l z.
Lemma ftotal_cons z x l : ftotal z (x :: l) = ftotal (PrimFloat.add z x) l.
Proof. reflexivity. Qed.
Lemma ftotal_snoc z l x : ftotal z (l ++ [x]) = PrimFloat.add (ftotal z l) x.
Proof. unfold ftotal. rewrite fold_left_app. reflexivity. Qed.
(* regrouping (summing blocks first) changes the result: 10^16 followed by two ones *)
Lemma ftotal_grouping_matters :
  let big := i2f 10000000000000000 in
  ftotal (fzero true) [big; PrimFloat.one; PrimFloat.one]
  <> PrimFloat.add (ftotal (fzero true) [big]) (ftotal (fzero true) [PrimFloat.one; PrimFloat.one]).
Proof. intros big H. apply (f_equal bits) in H. vm_compute in H. discriminate H. Qed.

(* comparing floating-point results: IEEE comparison - a NaN is comparable with nothing, -0 = +0 *)
Definition fcmp (a b : float) : option comparison :=
  match PrimFloat.compare a b with FEq => Some Eq | FLt => Some Lt | FGt => Some Gt | FNotComparable => None end.
Definition fscore_pcmp (a b : float) : option comparison := fcmp a b.
Definition ferror_pcmp (a b : float) : option comparison := fcmp b a.
(* collections of float results compare as their totals do - where those are comparable at all *)
Definition fresults_pcmp (err : bool) (z : float) (a b : list float) : option comparison :=
  (if err then ferror_pcmp else fscore_pcmp) (ftotal z a) (ftotal z b).
Fixpoint flist_eqb (a b : list float) : bool :=
  match a, b with [], [] => true | x :: a', y :: b' => PrimFloat.eqb x y && flist_eqb a' b' | _, _ => false end.
Definition fresults_eqb (z : float) (a b : list float) : bool := flist_eqb a b && PrimFloat.eqb (ftotal z a) (ftotal z b).
(* totals that are not comparable: +inf + -inf is NaN although no case is *)
Lemma incomparable_total :
  fresults_pcmp false (fzero true) [infinity; neg_infinity] [PrimFloat.one] = None /\
  fresults_pcmp true (fzero true) [PrimFloat.one] [infinity; neg_infinity] = None.
Proof. split; vm_compute; reflexivity. Qed.
