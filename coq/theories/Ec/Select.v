(* Selection (ec-core: operator/selector and weighted modules): best, worst, random,
   tournament, lexicase, and weighted / dynamic combinations of them, as finite
   distributions over "index of the selected individual, or a documented error". *)
From Coq Require Import List ZArith QArith Lia Bool Lqa Arith.
From UEC Require Import Base.Dist.
Import ListNotations.

(* a population: per individual its per-case results; individuals are ordered by their total *)
Definition population := list (list Z).
Definition total (r : list Z) : Z := fold_left Z.add r 0%Z.
(* polarity: true = scores (bigger is better), false = errors (smaller is better) *)
Definition rkey (pol : bool) (x : Z) : Z := if pol then x else (- x)%Z.
Definition ikey (pol : bool) (pop : population) (i : nat) : Z := rkey pol (total (nth i pop [])).

Inductive serr := EEmpty | ETournamentSize | EMissingCase | EZeroWeight.
Definition outcome := (nat + serr)%type.

Inductive sel :=
| SBest | SWorst | SRandom
| STournament (k : nat)           (* k >= 1 *)
| SLexicase (ncases : nat)
| SLeaf (w : N) (s : sel)         (* Weighted<S> *)
| SPair (a b : sel)               (* WeightedPair<A, B> *)
| SDynNil                         (* DynWeighted: a list of (selector, weight) *)
| SDynCons (s : sel) (w : N) (rest : sel).

(* Iterator::max returns the LAST maximal element, Iterator::min the FIRST minimal one *)
Fixpoint last_max (k : nat -> Z) (l : list nat) (cur : option nat) : option nat :=
  match l with
  | [] => cur
  | i :: r => last_max k r (match cur with
                            | None => Some i
                            | Some c => if (k c <=? k i)%Z then Some i else Some c
                            end)
  end.
Fixpoint first_min (k : nat -> Z) (l : list nat) (cur : option nat) : option nat :=
  match l with
  | [] => cur
  | i :: r => first_min k r (match cur with
                             | None => Some i
                             | Some c => if (k i <? k c)%Z then Some i else Some c
                             end)
  end.

Fixpoint sublists {A} (k : nat) (l : list A) : list (list A) :=
  match k, l with
  | O, _ => [[]]
  | S _, [] => []
  | S k', x :: t => map (cons x) (sublists k' t) ++ sublists k t
  end.

Fixpoint insert_all {A} (x : A) (l : list A) : list (list A) :=
  match l with
  | [] => [[x]]
  | y :: r => (x :: l) :: map (cons y) (insert_all x r)
  end.
Fixpoint perms {A} (l : list A) : list (list A) :=
  match l with
  | [] => [[]]
  | x :: r => flat_map (insert_all x) (perms r)
  end.

Definition of_opt (o : option nat) : outcome := match o with Some i => inl i | None => inr EEmpty end.

(* ---- lexicase ---- *)
Section Lex.
Context (pol : bool) (pop : population).
Definition case_result (i c : nat) : option Z := option_map (rkey pol) (nth_error (nth i pop []) c).
Definition missing (c : nat) (C : list nat) : bool :=
  existsb (fun i => match case_result i c with None => true | Some _ => false end) C.
Definition best_on (c : nat) (C : list nat) : Z :=
  fold_right (fun i m => match case_result i c with Some v => Z.max v m | None => m end)
             (match C with i :: _ => match case_result i c with Some v => v | None => 0%Z end | [] => 0%Z end) C.
Definition filter_case (c : nat) (C : list nat) : list nat :=
  filter (fun i => match case_result i c with Some v => (v =? best_on c C)%Z | None => false end) C.

(* the loop over the (shuffled) cases, with the early exit once one candidate is left *)
Fixpoint lex_run (cases : list nat) (C : list nat) : list nat + serr :=
  match cases with
  | [] => inl C
  | c :: rest =>
    match C with
    | [] => inr EEmpty
    | [_] => inl C
    | _ => if missing c C then inr EMissingCase else lex_run rest (filter_case c C)
    end
  end.
Definition lexicase (ncases : nat) : dist outcome :=
  dbind (uniform (perms (seq 0 ncases)))
        (fun order => match lex_run order (seq 0 (length pop)) with
                      | inr e => dret (inr e)
                      | inl [] => dret (inr EEmpty)
                      | inl C => dmap inl (uniform C)
                      end).
End Lex.

Definition qN (n : N) : Q := inject_Z (Z.of_N n).

Fixpoint weight (s : sel) : N :=
  match s with
  | SLeaf w _ => w
  | SPair a b => weight a + weight b
  | SDynCons _ w rest => w + weight rest
  | _ => 0
  end.

Fixpoint select (pol : bool) (pop : population) (s : sel) : dist outcome :=
  let n := length pop in
  match s with
  | SBest => dret (of_opt (last_max (ikey pol pop) (seq 0 n) None))
  | SWorst => dret (of_opt (first_min (ikey pol pop) (seq 0 n) None))
  | SRandom => match n with O => dret (inr EEmpty) | _ => dmap inl (uniform (seq 0 n)) end
  | STournament k =>
    if n <? k then dret (inr ETournamentSize)
    else dbind (uniform (sublists k (seq 0 n))) (fun t => dret (of_opt (last_max (ikey pol pop) t None)))
  | SLexicase nc => lexicase pol pop nc
  | SLeaf w s' => if (w =? 0)%N then dret (inr EZeroWeight) else select pol pop s'
  | SPair a b =>
    let t := (weight a + weight b)%N in
    if (t =? 0)%N then dret (inr EZeroWeight)
    else dbind (bernoulli (qN (weight a) / qN t)) (fun c => if c then select pol pop a else select pol pop b)
  | SDynNil => dret (inr EZeroWeight)
  | SDynCons s' w rest =>
    let t := (w + weight rest)%N in
    if (t =? 0)%N then dret (inr EZeroWeight)
    else dbind (bernoulli (qN w / qN t)) (fun c => if c then select pol pop s' else select pol pop rest)
  end.

(* building a statically typed chain: u32 weights, checked addition; the first overflow met in
   construction order (left operand, right operand, then the pair itself) is reported *)
Definition u32_limit : N := 4294967296.
Fixpoint build_error (s : sel) : option (N * N) :=
  match s with
  | SPair a b =>
    match build_error a with
    | Some e => Some e
    | None => match build_error b with
              | Some e => Some e
              | None => if (u32_limit <=? weight a + weight b)%N then Some (weight a, weight b) else None
              end
    end
  | SLeaf _ s' => build_error s'
  | _ => None
  end.
